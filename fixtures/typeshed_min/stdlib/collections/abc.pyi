from _collections_abc import *
from _collections_abc import __all__ as __all__
