#!/bin/bash
# Offline setup: make sure hypothesis is importable by /venv/bin/python and
# pre-build the typegraph extension from /repo's current sources.
set -e
cd "$(dirname "$0")"
if ! /venv/bin/python -c "import hypothesis" 2>/dev/null; then
  mkdir -p .deps
  /venv/bin/pip install --no-index --find-links /opt/veriftools/wheels \
      --target .deps hypothesis >/dev/null
fi
PYTHONPATH=.deps /venv/bin/python -c "import hypothesis; print('hypothesis', hypothesis.__version__)"
/venv/bin/python -m vlib.boot
