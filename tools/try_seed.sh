#!/bin/bash
# usage: tools/try_seed.sh <seed-dir> <check-id> [tier]
# Applies <seed-dir>/patch.diff to /repo, runs the check, reverts.
d=$1; id=$2; tier=${3:-quick}
cd /repo || exit 2
if ! git diff --quiet; then echo "repo dirty; refusing"; exit 2; fi
git apply "$d/patch.diff" || { echo "PATCH DOES NOT APPLY"; exit 2; }
cd /verif
VERIF_NOSHRINK=${VERIF_NOSHRINK:-1} ./check "$id" --tier "$tier" 2>&1 | grep -v "^HARNESS-ERROR: shard" | tail -${TAIL:-4}
rc=${PIPESTATUS[0]}
git -C /repo checkout -- . ; git -C /repo clean -fdq -- pytype 2>/dev/null
echo "seed $(basename $d) on $id/$tier: rc=$rc"
