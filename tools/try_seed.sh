#!/bin/bash
# usage: tools/try_seed.sh <seed-dir> <check-id> [tier]
# Applies <seed-dir>/patch.diff to a scratch worktree of /repo's HEAD (never to
# /repo itself: background runs use /repo), runs the check against it through
# VERIF_REPO, removes the worktree.
d=$(cd "$1" && pwd); id=$2; tier=${3:-quick}
name=$(basename $d)
wt=/tmp/ts_$name
git -C /repo worktree remove --force $wt 2>/dev/null
git -C /repo worktree add -q --detach $wt HEAD || exit 2
# uncommitted fixes under development in /repo are carried over
git -C /repo diff | git -C $wt apply 2>/dev/null
git -C $wt apply "$d/patch.diff" || { echo "PATCH DOES NOT APPLY"; git -C /repo worktree remove --force $wt; exit 2; }
cd /verif
VERIF_REPO=$wt VERIF_NOSHRINK=${VERIF_NOSHRINK:-1} ./check "$id" --tier "$tier" 2>&1 | grep -v "^HARNESS-ERROR: shard" | tail -${TAIL:-4}
rc=${PIPESTATUS[0]}
git -C /repo worktree remove --force $wt
echo "seed $name on $id/$tier: rc=$rc"
