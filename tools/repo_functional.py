#!/venv/bin/python
"""Run the repository's own functional/unit test modules that the baseline
cannot run (they need the C++ extension) with the freshly built extension and
the fixture typeshed, 16 modules at a time, and write the set of failing test
ids to <out>.  Used to compare before/after a fix:  the fix must not add a
failing id.   usage: tools/repo_functional.py <out-file> [module-glob ...]"""
import glob, json, os, subprocess, sys, concurrent.futures
HERE = os.path.dirname(os.path.dirname(os.path.abspath(__file__)))
REPO = os.environ.get("VERIF_REPO", "/repo")
out = sys.argv[1]
pats = sys.argv[2:] or ["pytype/tests/test_*.py", "pytype/pytd/*_test.py", "pytype/pyi/*_test.py",
                        "pytype/*_test.py", "pytype/abstract/*_test.py", "pytype/typegraph/*_test.py",
                        "pytype/directors/*_test.py", "pytype/blocks/*_test.py", "pytype/errors/*_test.py",
                        "pytype/tools/merge_pyi/*_test.py", "pytype/tools/analyze_project/*_test.py",
                        "pytype/rewrite/**/*_test.py", "pytype/rewrite/tests/test_*.py", "pytype/pyc/*_test.py",
                        "pytype/imports/*_test.py"]
mods = []
for p in pats:
  for f in sorted(glob.glob(os.path.join(REPO, p), recursive=True)):
    mods.append(os.path.relpath(f, REPO)[:-3].replace("/", "."))
mods = sorted(set(mods))
CODE = r'''
import sys, unittest, os
sys.path.insert(0, %r)
from vlib import boot
boot.ensure()
name = sys.argv[1]
try:
  suite = unittest.defaultTestLoader.loadTestsFromName(name)
except Exception as e:
  print("LOADFAIL", name, repr(e)[:200]); sys.exit(0)
class R(unittest.TextTestResult):
  pass
r = unittest.TextTestRunner(stream=open(os.devnull, "w"), verbosity=0).run(suite)
for t, _ in r.failures + r.errors:
  print("FAIL", t.id())
print("RAN", name, r.testsRun)
''' % HERE
def run(m):
  try:
    p = subprocess.run([sys.executable, "-c", CODE, m], capture_output=True, text=True, timeout=1500,
                       env=dict(os.environ, PYTHONHASHSEED="0"))
    return m, p.stdout
  except subprocess.TimeoutExpired:
    return m, "FAIL %s.TIMEOUT\n" % m
fails, ran = [], 0
with concurrent.futures.ThreadPoolExecutor(16) as ex:
  for m, o in ex.map(run, mods):
    for l in o.splitlines():
      if l.startswith("FAIL "): fails.append(l[5:])
      elif l.startswith("LOADFAIL"): fails.append("LOADFAIL " + m)
      elif l.startswith("RAN"): ran += int(l.split()[-1])
json.dump({"modules": len(mods), "tests_run": ran, "failing": sorted(fails)}, open(out, "w"), indent=0)
print("modules", len(mods), "tests run", ran, "failing", len(fails))
