#!/bin/bash
# usage: tools/mut.sh <repo-relative-file> <sed-expr> <check args...>
# Applies a sed mutation to /repo, runs ./check, reverts. For sensitivity tests only.
file=$1; expr=$2; shift 2
cd /repo || exit 2
if ! git diff --quiet; then echo "repo dirty; refusing"; exit 2; fi
sed -i "$expr" "$file"
if git diff --quiet; then echo "MUTATION DID NOT APPLY"; exit 2; fi
git diff | grep '^[-+]' | grep -v '^+++\|^---' | head -8
cd /verif
VERIF_NOSHRINK=${VERIF_NOSHRINK:-1} ./check "$@" 2>&1 | tail -${TAIL:-6}
rc=${PIPESTATUS[0]}
git -C /repo checkout -- .
echo "mut rc=$rc"
