#!/venv/bin/python
"""Minimise the 'src' of a replay file: delete top-level statements (then
nested statements) while the same check still reports the same signature.
usage: tools/ddmin_src.py <ID> <replay.json>  -> prints the minimised source"""
import ast, importlib, json, sys, os, glob
HERE = os.path.dirname(os.path.dirname(os.path.abspath(__file__)))
sys.path.insert(0, HERE)
sys.setrecursionlimit(10000)
from vlib import boot
boot.ensure()
from vlib.run import Ctx, Violation
pid, path = sys.argv[1], sys.argv[2]
mod = importlib.import_module("props." + os.path.basename(glob.glob(os.path.join(HERE, "props", pid.lower() + "_*.py"))[0])[:-3])
rep = json.load(open(path))
sig = rep["signature"]
case = rep["case"]

def fails(src):
  c = Ctx(pid, "quick", 0, 0, 1, [])
  try:
    compile(src, "m.py", "exec")
  except SyntaxError:
    return False
  try:
    mod.replay(c, dict(case, src=src))
  except Violation as v:
    return v.signature == sig
  except Exception:
    return False
  return any(v["signature"] == sig for v in c.violations)

def remove_stmt(tree, path_):
  """path_ = list of (field, index) from module to the statement."""
  node = tree
  for f, i in path_[:-1]:
    node = getattr(node, f)[i]
  f, i = path_[-1]
  body = getattr(node, f)
  if len(body) == 1 and not isinstance(node, ast.Module):
    body[i] = ast.Pass()
  else:
    del body[i]

def stmt_paths(node, prefix=()):
  out = []
  for f in ("body", "orelse", "finalbody"):
    b = getattr(node, f, None)
    if isinstance(b, list):
      for i, ch in enumerate(b):
        if isinstance(ch, ast.stmt):
          out.append(prefix + ((f, i),))
          out += stmt_paths(ch, prefix + ((f, i),))
  for hi, h in enumerate(getattr(node, "handlers", []) or []):
    for i, ch in enumerate(h.body):
      pass
  return out

src = case["src"]
assert fails(src), "does not reproduce"
changed = True
while changed:
  changed = False
  tree = ast.parse(src)
  for p in sorted(stmt_paths(tree), key=lambda p: (len(p), p), reverse=False):
    t2 = ast.parse(src)
    try:
      remove_stmt(t2, list(p))
      s2 = ast.unparse(t2) + "\n"
    except Exception:
      continue
    if s2 != src and fails(s2):
      src = s2
      changed = True
      break
print(src)
