#!/venv/bin/python
"""Regenerate MANIFEST.json from the table below + which props/ modules exist."""
import glob
import json
import os

HERE = os.path.dirname(os.path.dirname(os.path.abspath(__file__)))

# technique texts after the round-2 strengthening (override the table below)
TECHNIQUE_NOW = {
    "C03": "systematic mistake snippets (alone, and below a first line that has "
           "errors of its own) + Hypothesis program assembly with injected "
           "mistakes; metamorphic oracle over source edits (disable comments)",
    "C04": "deterministic snippet batch + Hypothesis batches of programs "
           "analysed in worker processes under varied PYTHONHASHSEED / history / "
           "loader reuse / injected (frozen) wall-clock values; byte-equality "
           "oracle over stub text, report, pickled and gzip-compressed stubs",
    "C06": "Hypothesis and fixed upstream programs + mechanically derived "
           "downstream module, three import configurations; structural "
           "type-equality oracle (generic members: PEP 484 substitution "
           "computed from the stub)",
    "C07": "bounded-exhaustive typegraph enumeration (incl. graphs extended "
           "after a first round of queries) + Hypothesis graph generation "
           "against an independent path-enumeration reference model",
    "C08": "Hypothesis rule-based state machine (model = replica rebuilt from "
           "the mutation log at every query) + bounded-exhaustive history "
           "families (query order; condition set / cleared, further source "
           "set, new edge between full query rounds) against single-query "
           "Programs built from scratch",
    "C10": "bounded-exhaustive + Hypothesis hierarchy generation (with "
           "post-creation class attribute assignments), differential against "
           "CPython's type() / setattr (class creation and attribute lookup)",
    "C12": "Hypothesis stub generation (also as package __init__) + corpus of "
           "bundled stubs + alias-import stubs serialised in sequence; "
           "serialise/decode round trip with byte comparison; pairwise eq/hash "
           "law over generated type nodes and across the serialised original, "
           "decoded and reference trees",
    "C16": "Hypothesis program generation + token mutation + systematic small "
           "try statements + stdlib corpus, structural invariants on every "
           "OrderedCode",
    "C17": "exhaustive enumeration of constructor calls and simplify(table) "
           "calls (fresh tables and one table refilled in place) with truth "
           "tables from an independent evaluator",
    "C19": "bounded-exhaustive project enumeration (2-3 modules x kinds, "
           "unusual names, all DAGs on 4-5 modules) + Hypothesis project "
           "generation; independent build.ninja parser, dependency-closure "
           "oracle and simulated execution of all/many topological schedules",
}

# id -> (technique, level text, level_note)
CHECKS = {
    "C09": (
        "bounded-exhaustive history enumeration + Hypothesis history generation "
        "against a BFS reference model",
        "Every insertion history of <=4 nodes/<=6 ops (quick; <=4/8 and <=5/7 "
        "thorough) is enumerated completely and all ordered pairs compared with "
        "BFS; random histories up to ~260 nodes / 3 bit buckets are compared "
        "after every step. Exhaustive below the bound, sampled above it.",
        "Trusted: the harness' recorded edge list + BFS; g++ -O1 build of the "
        "current typegraph sources."),
    "C07": (
        "bounded-exhaustive typegraph enumeration + Hypothesis graph generation "
        "against an independent path-enumeration reference model",
        "Every typegraph of six small families (<=4 nodes, <=3 bindings, all "
        "query nodes, all binding subsets <=3) is enumerated completely and "
        "HasCombination/IsVisible/Filter compared two-sidedly with a naive "
        "reference; random graphs to 12 nodes (DAG exact, conditions one-sided, "
        "cyclic graphs the three stated implications).",
        "Trusted: vlib/tg.py Reference (written from the property statement, "
        "validated against cfg_test.py conventions); g++ -O1 build."),
    "C08": (
        "Hypothesis rule-based state machine; model = replica rebuilt from the "
        "mutation log at every query",
        "Generated histories of 13 kinds of mutation and 7 kinds of query on one "
        "long-lived Program; every answer is compared with a fresh replica and "
        "immediately repeated; earlier queries are re-asked later.",
        "Trusted: the replica is built by the same cfg code, so only "
        "history-dependence is visible here (history-independent errors are "
        "C07's). Source cycles and self-pastes are outside the domain."),
    "C17": (
        "exhaustive enumeration of constructor calls and simplify(table) calls "
        "with truth tables from an independent evaluator",
        "All And/Or/Eq constructions to depth 2 over 3 variables x 3 values "
        "(and 2x2 deeper) and term.simplify for every restriction table are "
        "checked on every assignment; complete below the stated bound.",
        "Trusted: 15-line structural evaluator in props/c17_booleq.py; atoms "
        "restricted to Eq(var,value)/Eq(var,var) as the module documents."),
    "C18": (
        "exhaustive truth tables + breadth-first enumeration of reachable block "
        "states + Hypothesis rule-based state machine with a model denotation",
        "All And/Or/Not terms to depth 3 over p,q,r; every pair of the ~2000 "
        "block states reachable in 3 public operations is merged and compared "
        "with the denotational union under every valuation; long histories are "
        "checked against an independently maintained model.",
        "Trusted: the denotation reads BlockState's private fields "
        "(_locals, _condition, _locals_with_block_condition) as documented in "
        "state.py; a refactoring of that representation needs the reader "
        "updated."),
    "C12": (
        "Hypothesis stub generation + corpus of bundled stubs, serialise/decode "
        "round trip with byte comparison; pairwise eq/hash law over generated "
        "type nodes",
        "Generated stubs (resolved by the real loader and unresolved), all 18 "
        "bundled .pytd stubs and stubs emitted for generated programs are "
        "serialised, decoded, re-encoded; decoded declarations are compared "
        "with the original both by pytd's ASTeq and by an independent "
        "order-insensitive normal form; the eq/hash law is checked on all "
        "ordered pairs of pooled type nodes incl. permuted unions.",
        "Trusted: msgspec itself; the independent normal form in "
        "props/c12_serialize.py (treats documented unordered collections as "
        "sets)."),
    "C05": (
        "Hypothesis stub/program generation with print->parse->print round-trip "
        "oracle",
        "Generated stubs in the emitted dialect (normalised once) and the stubs "
        "emitted for generated programs must parse, pass VerifyVisitor, be a "
        "fixed point of Print(parse(.)) and of canonical_pyi, and re-read to "
        "structurally equal declarations.",
        "Trusted: the dialect generator vlib/gen_pyi.py reflects what pytype "
        "prints (aliases that normalise to None are excluded: pytype prints "
        "None-valued names as constants)."),
    "C11": (
        "Hypothesis stub generation x optimiser settings, finite-universe "
        "denotational membership oracle + idempotence check",
        "For each generated stub and each of 8 optimiser settings every "
        "constant/parameter/return type is compared before/after on ~900 "
        "abstract values (lower bound before <= upper bound after) and "
        "Optimize is applied twice.",
        "Trusted: vlib/den.py (exact on the modelled fragment, conservative "
        "elsewhere); stub class hierarchy read from the loaded pytd classes."),
    "C19": (
        "bounded-exhaustive project enumeration + Hypothesis project generation; "
        "independent build.ninja parser, dependency-closure oracle and "
        "simulated execution of all/many topological schedules",
        "All import digraphs on <=3 modules (4 in thorough) x module kinds x "
        "requested subsets, driven through importlab's real DependencyGraph and "
        "PytypeRunner.setup_build; every imports-map entry must be produced by a "
        "statement in the dependency closure; every linearisation of small "
        "plans is executed on a simulated file system; adversarial directory "
        "names; cross-check with the real ninja binary.",
        "Trusted: the ninja lexer in props/c19_buildplan.py (manual's lexical "
        "rules) and importlab's SCC condensation."),
    "C15": (
        "Hypothesis program generation + token-level mutation + stdlib corpus; "
        "oracle: no escaping exception, CPython compile() as differential "
        "reference for compiler errors, error lines inside the file",
        "Generated programs with every construct switch on, token mutants of "
        "them (about half uncompilable) and standard-library files are analysed "
        "in infer and check mode; crashes are bucketed by (exception type, "
        "innermost pytype frame).",
        "Trusted: CPython 3.12 compile() for 'does not compile' and the blamed "
        "line; fixture typeshed (imports other than typing are Any); an "
        "over-budget corpus file is inconclusive."),
    "C16": (
        "Hypothesis program generation + token mutation + stdlib corpus, "
        "structural invariants on every OrderedCode",
        "Every code object of generated programs, compiling mutants and (thorough) "
        "the whole standard library (~700k code objects) is checked against the "
        "block-graph invariants stated by the property.",
        "Trusted: pytype's pyc.compile_src as the producer of opcodes; the "
        "invariant checker in props/c16_blocks.py."),
    "C10": (
        "bounded-exhaustive + Hypothesis hierarchy generation, differential "
        "against CPython's type() (class creation and attribute lookup)",
        "Every hierarchy of <=3 classes with <=2-3 ordered bases (incl. object, "
        "repeats, inconsistent orders) through stub classes, <=2 classes "
        "through source programs, random hierarchies to 8 classes through both "
        "routes; mro-error <=> TypeError, attribute reads name the defining "
        "class CPython finds, GetBasesInMRO == __mro__.",
        "Trusted: CPython 3.12 type(); marker-class encoding of 'which "
        "definition was found'."),
    "C13": (
        "exhaustive signature x call-shape enumeration (sharded, stratified in "
        "the quick tier) + Hypothesis for larger signatures, differential "
        "against CPython evaluating each call",
        "All 756 signatures with <=2 parameters of each kind x call shapes (0-5 "
        "positional, <=3 keyword names incl. an unknown one, plus every "
        "constructed-valid shape) x 5 callee kinds; a TypeError under CPython "
        "<=> an arity/keyword error on the line, and the result type names "
        "the argument class bound to every parameter.",
        "Trusted: CPython 3.12 evaluating the call; distinct-class-per-argument "
        "encoding; positions typed Any are counted as unverifiable."),
    "C14": (
        "exhaustive statement grid over a value grammar (28k statements; "
        "advertised core always complete), each statement executed alone under "
        "CPython as differential oracle; Hypothesis two-step statements",
        "Soundness: an error on a line implies CPython raised "
        "TypeError/AttributeError; completeness for the advertised mistakes "
        "only (missing attribute/method, non-callable, + - * / unary minus and "
        "subscripts between builtin types).",
        "Trusted: CPython 3.12; statements raising other exceptions (KeyError, "
        "IndexError, unhashable key, ...) are outside the domain and counted."),
    "C02": (
        "exhaustive annotation x value x site grid (stratified in the quick "
        "tier), independent PEP 484 run-time membership oracle",
        "About 66k (annotation to depth 2, ground value, site) triples, many per "
        "analysed module, one per line; an error of the site's class on the "
        "line iff the evaluated value is not a member of the annotation.",
        "Trusted: the membership function in props/c02_annotations.py; "
        "documented leniencies are excluded from the domain (str vs string "
        "iterables, union-typed arguments, None vs bool, x: T = None)."),
    "C01": (
        "Hypothesis program generation (loop-free fragment), differential "
        "against CPython execution with an independent PEP 484 membership "
        "oracle",
        "Generated programs are executed (truncated before the first raising "
        "statement) and analysed; every module-level name, instance attribute "
        "and module-level call result must be admitted by its stub type.",
        "Trusted: CPython 3.12; vlib/oracle_types.py (unmodelled library types "
        "admit everything, counted); try bodies put the may-raise statement "
        "first (known VM design limit)."),
    "C03": (
        "Hypothesis program assembly with injected mistakes; metamorphic "
        "oracle over source edits (disable comments)",
        "For every reported error and each of three edits the re-analysed "
        "report must equal the old one minus exactly the targeted errors "
        "(lines shifted) and the stub must be unchanged; 22 mistake shapes "
        "incl. multi-line statements, decorated functions, implicit returns, "
        "shared lines.",
        "Trusted: error identity = (class, line, message with line numbers "
        "masked)."),
    "C04": (
        "Hypothesis batches of programs analysed in worker processes under "
        "varied PYTHONHASHSEED / history / loader reuse; byte-equality oracle",
        "Stub text, printed error report and pickled stub (SHA-256) of every "
        "program must be identical across 3-4 hash seeds x {batch order, "
        "permuted order with interleaved unrelated analyses, reused loader, "
        "fresh process}; reports sorted and duplicate-free.",
        "Trusted: OS / locale / C++ runtime are not varied."),
    "C06": (
        "Hypothesis upstream programs + mechanically derived downstream module, "
        "three import configurations; structural type-equality oracle",
        "Every name the downstream module re-exports (constants, call results, "
        "instance attributes, method results) must have the type the upstream "
        "stub declares, with no import/pyi/attribute errors, identically for "
        "pythonpath .pyi, imports-map .pyi and imports-map pickled AST.",
        "Trusted: order-insensitive type normal form in props/c06_via_stub.py; "
        "functions with TypeVars/overloads/user-class parameters are not "
        "called downstream."),
    "C20": (
        "Hypothesis programs x (inferred stub | generated stub for the same "
        "definitions); AST-strip round-trip oracle and per-definition "
        "annotation comparison",
        "merge_sources output must compile, equal the source after stripping "
        "annotations/typing imports/TypeVars, keep existing annotations, take "
        "inserted ones from the stub, and never insert bare Any/Never as a "
        "return or variable annotation.",
        "Trusted: Python's ast module for stripping and comparing; libcst "
        "accepts both inputs."),
}

PENDING_REASON = ("check not built yet in this round; planned per DESIGN.md "
                  "(property-based testing applies)")


def main():
  props = [json.loads(l) for l in open(os.path.join(HERE, "properties.jsonl"))]
  checks = []
  na = []
  for p in props:
    pid = p["id"]
    have = glob.glob(os.path.join(HERE, "props", pid.lower() + "_*.py"))
    if pid in CHECKS and have:
      tech, text, note = CHECKS[pid]
      tech = TECHNIQUE_NOW.get(pid, tech)
      checks.append({
          "property_id": pid,
          "quick_cmd": "./check %s --tier quick" % pid,
          "thorough_cmd": "./check %s --tier thorough" % pid,
          "evidence_file": "/verif/evidence/%s.json" % pid,
          "replay_cmd_template": "./check %s --replay {path}" % pid,
          "engine": "pbt",
          "level_claimed": {
              "category": "exploration",
              "text": text,
              "design_ref": "DESIGN.md section %s" % pid,
          },
          "level_note": note,
          "technique": tech,
      })
    else:
      na.append({"property_id": pid, "reason": PENDING_REASON})
  manifest = {
      "version": 1,
      "setup_cmd": "./setup.sh",
      "hooks": {
          "guard": "PYTYPE_VERIF",
          "enable": "no source hooks are needed: checks import /repo's Python "
                    "sources directly and compile pytype/typegraph/*.cc from "
                    "the working tree into /verif/.build/<hash>/ "
                    "(vlib/boot.py); PYTYPE_VERIF=1 is set by the harness "
                    "but no code in /repo reads it",
          "baseline_off_cmd": "cd /repo && /venv/bin/python -m pytest -ra -q "
                              "-p no:cacheprovider --timeout=900 "
                              "--continue-on-collection-errors",
          "source_commits": [],
          "add_only": True,
      },
      "engines": [{
          "name": "pbt",
          "path": "/verif/check",
          "serves_properties": [c["property_id"] for c in checks],
          "kind_free_text": "Hypothesis 6.168 property-based testing + "
                            "bounded-exhaustive enumeration, 16-way sharded "
                            "(vlib/run.py), explicit oracle per property "
                            "(props/cNN_*.py)",
      }],
      "checks": checks,
      "not_applicable": na,
      "notes": "See DESIGN.md. Known findings: known_findings.json.",
  }
  with open(os.path.join(HERE, "MANIFEST.json"), "w") as f:
    json.dump(manifest, f, indent=1)
    f.write("\n")
  print("checks:", [c["property_id"] for c in checks])
  print("not_applicable:", [n["property_id"] for n in na])


if __name__ == "__main__":
  main()
