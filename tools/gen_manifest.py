#!/venv/bin/python
"""Regenerate MANIFEST.json from the table below + which props/ modules exist."""
import glob
import json
import os

HERE = os.path.dirname(os.path.dirname(os.path.abspath(__file__)))

# id -> (technique, level text, level_note)
CHECKS = {
    "C09": (
        "bounded-exhaustive history enumeration + Hypothesis history generation "
        "against a BFS reference model",
        "Every insertion history of <=4 nodes/<=6 ops (quick; <=4/8 and <=5/7 "
        "thorough) is enumerated completely and all ordered pairs compared with "
        "BFS; random histories up to ~260 nodes / 3 bit buckets are compared "
        "after every step. Exhaustive below the bound, sampled above it.",
        "Trusted: the harness' recorded edge list + BFS; g++ -O1 build of the "
        "current typegraph sources."),
}

PENDING_REASON = ("check not built yet in this round; planned per DESIGN.md "
                  "(property-based testing applies)")


def main():
  props = [json.loads(l) for l in open(os.path.join(HERE, "properties.jsonl"))]
  checks = []
  na = []
  for p in props:
    pid = p["id"]
    have = glob.glob(os.path.join(HERE, "props", pid.lower() + "_*.py"))
    if pid in CHECKS and have:
      tech, text, note = CHECKS[pid]
      checks.append({
          "property_id": pid,
          "quick_cmd": "./check %s --tier quick" % pid,
          "thorough_cmd": "./check %s --tier thorough" % pid,
          "evidence_file": "/verif/evidence/%s.json" % pid,
          "replay_cmd_template": "./check %s --replay {path}" % pid,
          "engine": "pbt",
          "level_claimed": {
              "category": "exploration",
              "text": text,
              "design_ref": "DESIGN.md section %s" % pid,
          },
          "level_note": note,
          "technique": tech,
      })
    else:
      na.append({"property_id": pid, "reason": PENDING_REASON})
  manifest = {
      "version": 1,
      "setup_cmd": "./setup.sh",
      "hooks": {
          "guard": "PYTYPE_VERIF",
          "enable": "no source hooks are needed: checks import /repo's Python "
                    "sources directly and compile pytype/typegraph/*.cc from "
                    "the working tree into /verif/.build/<hash>/ "
                    "(vlib/boot.py); PYTYPE_VERIF=1 is set by the harness "
                    "but no code in /repo reads it",
          "baseline_off_cmd": "cd /repo && /venv/bin/python -m pytest -ra -q "
                              "-p no:cacheprovider --timeout=900 "
                              "--continue-on-collection-errors",
          "source_commits": [],
          "add_only": True,
      },
      "engines": [{
          "name": "pbt",
          "path": "/verif/check",
          "serves_properties": [c["property_id"] for c in checks],
          "kind_free_text": "Hypothesis 6.168 property-based testing + "
                            "bounded-exhaustive enumeration, 16-way sharded "
                            "(vlib/run.py), explicit oracle per property "
                            "(props/cNN_*.py)",
      }],
      "checks": checks,
      "not_applicable": na,
      "notes": "See DESIGN.md. Known findings: known_findings.json.",
  }
  with open(os.path.join(HERE, "MANIFEST.json"), "w") as f:
    json.dump(manifest, f, indent=1)
    f.write("\n")
  print("checks:", [c["property_id"] for c in checks])
  print("not_applicable:", [n["property_id"] for n in na])


if __name__ == "__main__":
  main()
