#!/bin/bash
# usage: tools/confirm_seed.sh <seed-dir> <worktree>
# Confirms: demo FAILs with the patch, existing tests still pass (171), demo PASSes without.
d=$1; W=$2
run_demo() { (cd $W && PYTHONPATH=$W TYPESHED_HOME=/tmp/envkit/typeshed_min timeout 600 /venv/bin/python $d/demo.py >/tmp/demo_out_$(basename $d).txt 2>&1; echo $?); }
cd $W || exit 2
git checkout -q -- . ; git clean -fdq -- pytype pytype_extensions 2>/dev/null
git apply --check $d/patch.diff || { echo "RESULT $(basename $d): patch does not apply"; exit 1; }
git apply $d/patch.diff
needs_ext=0; if grep -q "typegraph/.*\.\(cc\|h\)" $d/patch.diff || grep -q "cfg\|typegraph\|pytype import\|from pytype" $d/demo.py; then needs_ext=1; fi
rm -f $W/pytype/typegraph/cfg*.so
tests=$(/venv/bin/python -m pytest -q -p no:cacheprovider --timeout=900 --continue-on-collection-errors 2>&1 | tail -1)
[ $needs_ext = 1 ] && /tmp/envkit/build_ext.sh $W >/dev/null 2>&1
with=$(run_demo); with_out=$(tail -2 /tmp/demo_out_$(basename $d).txt | tr '\n' ' ')
git checkout -q -- . ; git clean -fdq -- pytype pytype_extensions 2>/dev/null
[ $needs_ext = 1 ] && /tmp/envkit/build_ext.sh $W >/dev/null 2>&1
without=$(run_demo); without_out=$(tail -2 /tmp/demo_out_$(basename $d).txt | tr '\n' ' ')
echo "RESULT $(basename $d): with_patch_exit=$with [$with_out] without_patch_exit=$without [$without_out] tests='$tests'"
