#!/usr/bin/env python3
"""usage: keep_seed.py <seed-dir> <worktree> <property-id> <check rc (1=caught,0=missed)> [<tier>]
Confirms the seed (tools/confirm_seed.sh) and, if confirmed, stores it under /verif/seeded/<name>/."""
import json, os, re, shutil, subprocess, sys
d, wt, pid, rc = sys.argv[1:5]
tier = sys.argv[5] if len(sys.argv) > 5 else "quick"
name = os.path.basename(d.rstrip("/"))
out = subprocess.run(["/verif/tools/confirm_seed.sh", d, wt], capture_output=True, text=True).stdout
line = [l for l in out.splitlines() if l.startswith("RESULT")][-1]
m = re.search(r"with_patch_exit=(\d+) \[(.*?)\] without_patch_exit=(\d+) \[(.*?)\] tests='(.*?)'", line)
ok = bool(m) and m.group(1) == "1" and m.group(3) == "0" and m.group(5).startswith("171 passed")
print(line, "->", "CONFIRMED" if ok else "REJECTED")
if not ok:
  sys.exit(1)
dst = os.path.join("/verif/seeded", name)
os.makedirs(dst, exist_ok=True)
for f in ("patch.diff", "demo.py", "notes.md"):
  if os.path.exists(os.path.join(d, f)):
    shutil.copy(os.path.join(d, f), dst)
notes = open(os.path.join(d, "notes.md")).read() if os.path.exists(os.path.join(d, "notes.md")) else ""
meta = {
  "property": pid,
  "breaks": notes.split("\n")[0].lstrip("# ").strip(),
  "needs_to_manifest": " ".join(l.strip() for l in notes.splitlines() if re.search(r"[Nn]eed|[Tt]rigger|only show|manifest", l))[:600],
  "confirmed_by_me": {
    "command": "tools/confirm_seed.sh %s %s" % (d, wt),
    "demo_with_patch": "exit %s: %s" % (m.group(1), m.group(2)),
    "demo_without_patch": "exit %s: %s" % (m.group(3), m.group(4)),
    "existing_tests_with_patch": m.group(5),
  },
  "check_result": {"check": "./check %s --tier %s" % (pid, tier),
                   "detected": rc == "1"},
}
json.dump(meta, open(os.path.join(dst, "meta.json"), "w"), indent=1)
