#!/venv/bin/python
"""Run one of the repository's own unittest modules with the freshly built
extension loaded (they cannot run in the baseline because cfg is not built).
usage: tools/run_repo_test.py pytype.pytd.optimize_test [more modules]"""
import os, sys, unittest
sys.path.insert(0, os.path.dirname(os.path.dirname(os.path.abspath(__file__))))
from vlib import boot
boot.ensure()
suite = unittest.TestSuite()
for m in sys.argv[1:]:
  suite.addTests(unittest.defaultTestLoader.loadTestsFromName(m))
r = unittest.TextTestRunner(verbosity=0).run(suite)
sys.exit(0 if r.wasSuccessful() else 1)
