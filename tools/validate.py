#!/opt/veriftools/pyvenv/bin/python
"""Validate MANIFEST.json and every evidence file against the schemas."""
import glob, json, sys, os
import jsonschema
H = os.path.dirname(os.path.dirname(os.path.abspath(__file__)))
ok = True
def v(path, schema):
  global ok
  try:
    jsonschema.validate(json.load(open(path)), json.load(open(schema)))
    print("ok  ", path)
  except Exception as e:
    ok = False
    print("FAIL", path, str(e)[:300])
v(H + "/MANIFEST.json", "/root/.vp/MANIFEST.schema.json")
for e in sorted(glob.glob(H + "/evidence/*.json")):
  v(e, "/root/.vp/EVIDENCE.schema.json")
sys.exit(0 if ok else 1)
