#!/bin/bash
# usage: tools/run_thorough.sh C07 C08 ...   (runs sequentially, logs to .run/thorough_<id>.log)
cd "$(dirname "$0")/.."
./setup.sh >/dev/null 2>&1
for id in "$@"; do
  s=$(date +%s)
  VERIF_NOSHRINK=${VERIF_NOSHRINK:-1} ./check $id --tier thorough > .run_thorough_$id.log 2>&1
  echo "$id rc=$? $(( $(date +%s) - s ))s $(grep -c '^VIOLATION' .run_thorough_$id.log) violations"
  grep "^violation\|^VIOLATION\|HARNESS" .run_thorough_$id.log | cut -c1-300 | head -8
done
