#!/usr/bin/env python3
"""Print the sub-agent prompt for seeding a property-breaking change (contains only the property text)."""
import json, sys
pid = sys.argv[1]
wt = sys.argv[2]
out = sys.argv[3]
start = int(sys.argv[4]) if len(sys.argv) > 4 else 1
import glob, os
avoid = []
for f in sorted(glob.glob('/verif/seeded/%s_*/meta.json' % pid)):
  avoid.append(json.load(open(f))['breaks'])
p = [json.loads(l) for l in open('/verif/properties.jsonl') if json.loads(l)['id'] == pid][0]
print(f"""You are helping evaluate a verification effort for google/pytype (a Python static type inferencer/checker). Your job: act as a careful "bug seeder". You get ONE semantic property that pytype is supposed to satisfy, and your own scratch git worktree of the repository at {wt} (already created; work ONLY there — never touch /repo or /verif, never read anything under /verif). Read /tmp/envkit/README.md first: it explains how to build the C++ extension and run pytype offline in this sandbox.

## The property ({pid}): {p['title']}

Statement: {p['statement']}

Quantified over: {p['quantifier']['text']}

Code it is anchored in: {', '.join(p['anchors']['files'])}
Mechanisms meant to make it hold: {'; '.join(m['name'] + ' (' + m['where'] + ')' for m in p['anchors']['mechanism'])}
Where it can be observed: {'; '.join(p['anchors'].get('observe_at') or [])}

## What to produce

Produce THREE independent, realistic source changes to pytype (each a separate patch against the worktree's HEAD, each touching different code or breaking the property through a different mechanism) such that each change:
1. BREAKS the property above (there is a concrete input / program / operation sequence on which the stated property is violated with the change and holds without it);
2. still compiles/imports, and the repository's existing test suite still passes (`171 passed`, see the README for the command; run it WITHOUT a built cfg .so in the tree for the exact baseline, i.e. delete the .so before running the suite, rebuild afterwards if you need it);
3. looks like a plausible mistake or well-meant "optimisation"/refactoring a maintainer could make — not sabotage like `return False` at the top of a function;
4. needs something SPECIFIC to manifest — an unusual input shape, a multi-step sequence of operations, a particular size/boundary, a particular ordering, or two cooperating sites that each look fine alone — rather than something any ordinary use would expose at once. Avoid changes that break nearly every input.

{("Ideas that were already used by earlier seeders and must NOT be repeated (find different code sites and different mechanisms):" + chr(10) + chr(10).join("- " + a for a in avoid) + chr(10)) if avoid else ""}
For each change k in {start}..{start+2} write into {out}/{pid}_k/ :
- patch.diff   — `git -C {wt} diff` of ONLY that change (source files only; no build products). Make sure `git -C {wt} apply --check` would accept it on a clean HEAD.
- demo.py      — a small self-contained program (run as `cd {wt} && PYTHONPATH={wt} TYPESHED_HOME=/tmp/envkit/typeshed_min /venv/bin/python {out}/{pid}_k/demo.py`) that exits 0 and prints PASS when the property holds on its input and exits 1 and prints FAIL when it is violated. It must FAIL with the patch applied and PASS on the clean worktree. It should import pytype from the worktree via PYTHONPATH (if it needs the C++ extension, say so in notes; the extension must be rebuilt with /tmp/envkit/build_ext.sh {wt} after applying/reverting a patch that touches .cc/.h files).
- notes.md     — 5-10 lines: what the change is, why it breaks the property, what specific circumstance is needed for it to manifest, and the exact commands you ran (demo with and without the patch, and the test-suite result with the patch).

Work method: make change 1 in the worktree, verify (demo FAILs, tests pass), save the diff, then `git -C {wt} checkout -- .` and verify the demo PASSes on the clean tree; repeat for the other two. Leave the worktree clean (no uncommitted changes) when you finish; do not commit anything. Do not delete the worktree. Be efficient: do not spend time on broad exploration of the codebase beyond the anchored files.

Final answer: for each of the three changes one line: directory, files touched, one-sentence description, and whether you verified FAIL-with/PASS-without and the 171-pass baseline.""")
