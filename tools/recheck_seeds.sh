#!/bin/bash
# usage: tools/recheck_seeds.sh <ID>...   (seeds of one ID run one after the other)
# Re-runs the quick tier against every kept seed of the given properties, each
# in its own scratch worktree of /repo (VERIF_REPO), and prints rc per seed.
# Evidence files are overwritten by these runs: re-run the clean quick tier
# afterwards.
cd /verif
for id in "$@"; do
  for d in seeded/${id}_*/; do
    name=$(basename $d)
    wt=/tmp/rs_$name
    git -C /repo worktree add -q --detach $wt HEAD || { echo "$name: worktree failed"; continue; }
    if git -C $wt apply $PWD/$d/patch.diff 2>/dev/null; then
      VERIF_REPO=$wt VERIF_NOSHRINK=1 ./check $id --seed ${RS_SEED:-1} > /tmp/rs_$name.log 2>&1
      echo "$name rc=$?"
    else
      echo "$name PATCH-DOES-NOT-APPLY"
    fi
    git -C /repo worktree remove --force $wt
  done
done
