"""C15 - any compilable source is analysed to a result, never an internal
failure.

(G) generated programs with every feature switch on,
(M) token-level mutants of them (about half still compile),
(S) CPython standard-library sources as a corpus (separate processes with a
    hard kill; a kill is 'inconclusive', never a violation).
Oracle: io.check_or_generate_pyi in infer and check mode: no exception
escapes; if CPython's compile() rejects the text there is exactly one
python-compiler-error at the line CPython blames; every reported error has a
line inside the file.
"""

import glob
import json
import os
import subprocess
import sys
import traceback

from vlib import boot, gen_py, mutate_src
from vlib.run import Violation, hyp_run

ID = "C15"
RULE = (
    "case = one source text run through io.check_or_generate_pyi in infer and "
    "in check mode. Non-trivial = the text does not compile under CPython, or "
    "it compiles and uses >= 3 constructs outside the core fragment (loops, "
    "generators, async, with, try/finally, match, decorators, star "
    "expressions, global/nonlocal, walrus) or is a corpus file. distinct = "
    "distinct source text.")
ASSUMPTIONS = [
    "analysis runs with pytype's default options for Python 3.12 against the "
    "minimal fixture typeshed (imports other than typing become "
    "import-error + Any)",
    "CPython 3.12's compile() is the reference for 'does not compile' and for "
    "the blamed line",
    "a corpus file whose analysis exceeds the per-file budget is counted as "
    "inconclusive, never as a violation",
]

STDLIB = os.path.join(sys.base_prefix, "lib", "python3.12")


def crash_signature(exc, tb_text):
  """(exception type, innermost frame under pytype/)."""
  frames = [l for l in tb_text.splitlines() if 'File "' in l and
            "/pytype/" in l]
  where = "?"
  if frames:
    last = frames[-1]
    path = last.split('File "')[1].split('"')[0]
    func = last.rsplit(" in ", 1)[-1].strip()
    where = "%s:%s" % (path.split("/pytype/", 1)[-1], func)
  return "internal-exception:%s@%s" % (type(exc).__name__, where)


def analyse_file(path, mode):
  """Returns dict(ok, errors=[(name,line,msg)], crash=None|(sig, tb))."""
  boot.ensure()
  import logging
  logging.disable(logging.CRITICAL)
  from pytype import config, io
  from pytype import utils as pytype_utils
  opts = config.Options.create(path, python_version=(3, 12),
                               check=(mode == "check"))
  try:
    res = io.check_or_generate_pyi(opts)
  except pytype_utils.UsageError as e:
    return {"usage_error": str(e)}
  except RecursionError as e:
    return {"crash": (crash_signature(e, ""), "RecursionError")}
  except Exception as e:  # pylint: disable=broad-except
    tb = traceback.format_exc()
    return {"crash": (crash_signature(e, tb), tb[-1500:])}
  errs = [(e.name, e.line, str(e.message)[:200]) for e in res.context.errorlog]
  return {"errors": errs, "has_stub": bool(res.pyi) or mode == "check"}


def cpython_compile(src):
  try:
    compile(src, "m.py", "exec", dont_inherit=True)
    return None
  except (SyntaxError, ValueError, OverflowError, MemoryError,
          RecursionError) as e:
    return (type(e).__name__, getattr(e, "lineno", None), str(e))


def check_source(ctx, src, label, case, features=()):
  run_dir = os.path.join(boot.VERIF, ".run", "C15", "s%d" % ctx.shard)
  os.makedirs(run_dir, exist_ok=True)
  path = os.path.join(run_dir, "m.py")
  with open(path, "w") as f:
    f.write(src)
  cerr = cpython_compile(src)
  nlines = src.count("\n") + 1
  nx = len([f for f in features if f.startswith("x:")])
  nontriv = cerr is not None or nx >= 3 or label.startswith("S")
  classes = [label + ":inputs", label + (":compiles" if cerr is None else
                                         ":does-not-compile")]
  ctx.case(key=src, nontrivial=nontriv,
           sample=("%s (%s): %s" % (label, "compiles" if cerr is None else
                                    "rejected by CPython: %s line %s" %
                                    (cerr[0], cerr[1]), src[:300]))
           if nontriv else None, classes=classes)
  for mode in ("infer", "check"):
    r = analyse_file(path, mode)
    if "usage_error" in r:
      raise RuntimeError("harness: UsageError %s" % r["usage_error"])
    if "crash" in r:
      sig, tb = r["crash"]
      ctx.check(False, sig, "%s mode, %s input:\n%s\n--- source\n%s" % (
          mode, label, tb, src[:1500]), dict(case, mode=mode))
      continue
    errs = r["errors"]
    cc = [e for e in errs if e[0] == "python-compiler-error"]
    if cerr is not None and cerr[0] in ("SyntaxError", "IndentationError",
                                        "TabError"):
      ctx.check(len(cc) == 1 and len(errs) == 1,
                "uncompilable-source-not-one-compiler-error",
                "%s mode: CPython rejects the text (%s) but pytype reported %s"
                % (mode, cerr, errs[:4]), dict(case, mode=mode))
      if len(cc) == 1 and cerr[1] is not None:
        ctx.check(cc[0][1] == cerr[1], "compiler-error-at-wrong-line",
                  "%s mode: CPython blames line %s (%s), pytype line %s (%s)"
                  % (mode, cerr[1], cerr[2], cc[0][1], cc[0][2]),
                  dict(case, mode=mode))
    elif cerr is None:
      ctx.check(not cc, "compiler-error-on-compilable-source",
                "%s mode: CPython compiles the text, pytype reports %s" %
                (mode, cc[:2]), dict(case, mode=mode))
    for e in errs:
      ok = isinstance(e[1], int) and 1 <= e[1] <= nlines
      ctx.check(ok, "error-line-outside-file:" + e[0],
                "%s mode: %s reported at line %r of a %d-line file" %
                (mode, e[0], e[1], nlines), dict(case, mode=mode))


def part_generated(ctx, n):
  cfg = gen_py.Cfg.everything(annotations=0.3, n_stmts=(4, 12))

  def body(p):
    src = gen_py.render(p)
    check_source(ctx, src, "G", {"kind": "src", "src": src}, p["features"])

  hyp_run(ctx, gen_py.program(cfg), body, n, label="G")


def part_mutants(ctx, n):
  from hypothesis import strategies as st
  cfg = gen_py.Cfg.everything(annotations=0.2, n_stmts=(3, 8))

  def body(x):
    p, plan = x
    src = mutate_src.apply_plan(gen_py.render(p), plan)
    if "\x00" in src:
      return
    check_source(ctx, src, "M", {"kind": "src", "src": src}, p["features"])

  hyp_run(ctx, st.tuples(gen_py.program(cfg), mutate_src.mutation_plan()),
          body, n, label="M")


FIXED = [
    # f-strings: conversion and (nested) format spec together, in and out of
    # loops
    "w = 3\nout = ''\nfor r in [1, 's']:\n  out = f'{r!r:>{w}}'\n  if r:\n"
    "    out += f'{r!s:^{w}.{w}} {r=} {r=!r:<{w}}'\n",
    "def f(xs, w):\n  for r in xs:\n    yield f'{r!a:{w}}{r:>{w}}'\n"
    "  return f'{xs!r:{w}}'\n",
    # methods whose first parameter is not a plain name
    "class O:\n  @classmethod\n  def build(*args, **kwargs):\n    return args\n"
    "  @classmethod\n  def none():\n    return 0\n  @staticmethod\n"
    "  def st(*a):\n    return a\n  def meth(*args):\n    return args\n"
    "  @property\n  def prop(*a):\n    return a\n"
    "x = (O.build(), O().meth(), O.st(1), O().prop)\n",
    "class P:\n  @classmethod\n  def mk(*args):\n    return args[0]()\n"
    "  def __init__(*args, **kw):\n    pass\np = P.mk()\n",
    # mapping patterns whose keys are value patterns (fix fab57ea)
    "class K:\n  A = str(3)\n  B = 'b'\ndef f(x):\n  match x:\n"
    "    case {K.A: v}:\n      return v\n    case {K.B: b, **rest}:\n"
    "      return (b, rest)\n  return None\ny = f({'3': 1})\n",
    "x = (1,\n", "def f(:\n  pass\n", "  x = 1\n", "if True:\nx = 1\n",
    "x = 1\n\ty = 2\n", "class A:\n  def f(self):\n    return\n   x = 2\n",
    "print 'hello'\n", "x = $\n", "def f():\n  yield\n  await g()\n",
    "return 5\n", "break\n", "x = 1 +\n", "'''unterminated\n",
    "f(**a, *b)\n", "a, *b, *c = x\n", "nonlocal q\n", "\n\n\nx = )\n",
    "", "\n", "# only a comment\n", "x = 1",  # no trailing newline
    "async def f():\n  [await x async for x in y]\n  yield from z\n",
    "lambda: (yield)\n", "x: int\ny: 'unknown' = 3\n",
    "def f(a, a): pass\n", "def f(*, a, **k, b): pass\n",
    "class C(metaclass=M, metaclass=N): pass\n",
    "try:\n  pass\nexcept* ValueError:\n  pass\n",
    "match x:\n  case {'a': 1, **rest}:\n    pass\n  case [1, *_]:\n    pass\n",
    "type X = int\n", "def f[T](x: T) -> T: return x\n",
    "x = 10 ** 10 ** 2\n", "x = 'a' * 10 ** 9\n" if False else "x = 1\n",
    "del x\n", "assert False, 'm'\n", "with a as b, c as d:\n  pass\n",
    "global g\ng = 1\n", "from __future__ import annotations\nx: C = None\n",
    "import os, sys\nfrom . import q\nfrom .. import r\n",
    "def f():\n  x = 1\n  def g():\n    nonlocal x\n    x = 2\n  return g\n",
    "[x for x in range(3) if x for y in range(x)]\n",
    "{**a, 'k': 1}\n(a := 1)\nprint(f'{a!r:>{10}}')\n",
    # errors reported at the very end of the file
    "def f(x) -> int:\n  if x:\n    return 1\n",
    "def f(x) -> int:\n  if x:\n    return 1",
    "class A:\n  def m(self) -> str:\n    for i in []:\n      return 's'\n",
    "def g() -> int:\n  try:\n    return 1\n  except E:\n    pass\n",
    "x = 1\ndef h(a) -> str:\n  while a:\n    a -= 1\n",
    "def k() -> int:\n  with open('f') as q:\n    pass\n",
    "async def c() -> int:\n  if 1:\n    await c()\n",
    "def f() -> int: pass",
    # constant indices at and beyond the ends of known-length sequences
    "t = (1, 'a')\na = t[2]\nb = t[-3]\nc = t[5]\nd = t[-2]\ne = t[1]\n",
    "l = [1, 2, 3]\na = l[3]\nb = l[-4]\ns = 'abc'\nc = s[3]\nd = b'ab'[2]\n",
    "t = ()\na = t[0]\nb = t[-1]\nu = (1,)\nc = u[1]\nd = u[True]\ne = u[-1:5]\n",
    "def f():\n  t = (1, 2, 3)\n  x, y = t\n  a, b, c, d = t\n  return t[3]\n",
    "t = (1, 2)\nfor i in (0, 1, 2):\n  v = t[i]\nw = t[len(t)]\n",
    "d = {'a': 1}\nx = d['b']\ny = {}[0]\nz = [][0]\nq = ''[0]\n",
    # very long modules (EXTENDED_ARG opcodes around try bodies)
    "\n".join("n%d = %d" % (i, i) for i in range(300)) +
    "\ntry:\n  late = n299 + 1\nexcept ValueError:\n  late = 0\n",
    "\n".join("def f%d(): return %d" % (i, i) for i in range(270)) +
    "\ntry:\n  v = f269()\nfinally:\n  w = f0()\n",
]


def part_fixed(ctx):
  for i, src in enumerate(FIXED):
    if i % ctx.nshards == ctx.shard:
      check_source(ctx, src, "F", {"kind": "src", "src": src},
                   ["x:a", "x:b", "x:c"])


# ---------------------------------------------------------------- corpus

WORKER = r'''
import json, sys
sys.path.insert(0, %r)
sys.setrecursionlimit(10000)
from props import c15_robust
r = {}
for mode in ("infer", "check"):
  r[mode] = c15_robust.analyse_file(sys.argv[1], mode)
print("RESULT " + json.dumps(r))
'''


def corpus_files(max_lines, limit):
  out = []
  for p in sorted(glob.glob(os.path.join(STDLIB, "*.py"))):
    try:
      with open(p, encoding="utf-8") as f:
        n = sum(1 for _ in f)
    except (OSError, UnicodeDecodeError):
      continue
    if n <= max_lines:
      out.append((n, p))
  out.sort()
  return [p for _, p in out][:limit]


def part_corpus(ctx, max_lines, limit, budget_s):
  files = corpus_files(max_lines, limit)
  for i, path in enumerate(files):
    if i % ctx.nshards != ctx.shard:
      continue
    with open(path, encoding="utf-8") as f:
      src = f.read()
    nlines = src.count("\n") + 1
    case = {"kind": "file", "path": path}
    try:
      p = subprocess.run(
          [sys.executable, "-c", WORKER % boot.VERIF, path],
          capture_output=True, text=True, timeout=budget_s,
          env=dict(os.environ, PYTHONHASHSEED="0"))
    except subprocess.TimeoutExpired:
      ctx.event("S:inconclusive-over-budget")
      ctx.case(key=path, nontrivial=False, classes=["S:inputs"])
      continue
    line = [l for l in p.stdout.splitlines() if l.startswith("RESULT ")]
    ctx.case(key=path, nontrivial=True,
             sample="S: %s (%d lines)" % (os.path.basename(path), nlines),
             classes=["S:inputs"])
    if not line:
      ctx.check(False, "worker-died:exit%s" % p.returncode,
                "%s: %s" % (path, (p.stderr or "")[-600:]), case)
      continue
    r = json.loads(line[-1][7:])
    for mode in ("infer", "check"):
      rr = r[mode]
      if "crash" in rr:
        ctx.check(False, rr["crash"][0], "%s mode on %s:\n%s" % (
            mode, path, rr["crash"][1]), dict(case, mode=mode))
        continue
      if "usage_error" in rr:
        raise RuntimeError("harness: " + rr["usage_error"])
      for e in rr["errors"]:
        ok = isinstance(e[1], int) and 1 <= e[1] <= nlines
        ctx.check(ok, "error-line-outside-file:" + e[0],
                  "%s mode on %s: %s at line %r of %d" % (
                      mode, path, e[0], e[1], nlines), dict(case, mode=mode))
        ctx.check(e[0] != "python-compiler-error",
                  "compiler-error-on-compilable-source",
                  "%s: %s" % (path, e), dict(case, mode=mode))


def run_shard(ctx):
  boot.ensure()
  sys.setrecursionlimit(10000)
  part_fixed(ctx)
  if ctx.quick():
    part_generated(ctx, 7)
    part_mutants(ctx, 14)
    part_corpus(ctx, max_lines=200, limit=16, budget_s=120)
  else:
    part_generated(ctx, 1500)
    part_mutants(ctx, 2500)
    part_corpus(ctx, max_lines=100000, limit=400, budget_s=300)


def replay(ctx, case):
  if case.get("kind") == "file":
    with open(case["path"], encoding="utf-8") as f:
      src = f.read()
    check_source(ctx, src, "S", case, [])
  else:
    check_source(ctx, case["src"], "replay", case, ["x:a", "x:b", "x:c"])


def confirm_known(entry):
  from vlib.run import Ctx
  c = Ctx(ID, "quick", 0, 0, 1, [])
  try:
    check_source(c, entry["input"]["src"], "known",
                 {"kind": "src", "src": entry["input"]["src"]},
                 ["x:a", "x:b", "x:c"])
  except Violation as v:
    return v.signature == entry["signature"]
  return False
