"""C19 - the whole-project build plan orders every analysis after the stubs it
reads.

Generator: import graphs (exhaustive digraphs on <= 3-4 modules, Hypothesis
beyond) x module kinds (Local/Direct/System, .py/.pyi, package __init__) x
requested subsets, fed through importlab's real DependencyGraph (table-driven
get_file_deps) -> deps_from_import_graph -> PytypeRunner.setup_build.
Oracle: build.ninja and imports/*.imports are parsed back with an independent
parser written from the ninja manual's lexer rules (cross-checked with the
real `ninja -t graph`), and checked as a dependency graph; all / many
topological schedules are executed against a simulated file system.
"""

import itertools
import os
import shutil
import subprocess

from vlib import boot
from vlib.run import Violation, hyp_run

ID = "C19"
RULE = (
    "case = one project (import graph over modules with kinds, extensions, "
    "package layout, unresolved imports; a requested subset) -> the build "
    "plan written by PytypeRunner.setup_build, parsed back and checked; "
    "schedules: every linearisation for plans with <= 7 statements, otherwise "
    "several systematic topological orders. Non-trivial = import graph with a "
    "cycle, or a diamond, or a System module, or a stub (.pyi) module, or a "
    "requested subset smaller than the set of source files. distinct = "
    "distinct (graph, kinds, requested subset, directory names).")
ASSUMPTIONS = [
    "module-relative short paths contain no white space (the .imports format "
    "is space-separated by design); besides identifier-like names there are a "
    "module called `default`, `pk.default`, `da-sh` and three names that "
    "differ only in a character outside [A-Za-z0-9_.-] (`tw+n`, `tw_n`, "
    "`tw@n`); project root and output directory names contain spaces, colons "
    "and dollar signs",
    "the import graph is presented through importlab's own DependencyGraph "
    "(SCC condensation, deps_list) with a table-driven get_file_deps, i.e. "
    "importlab's file-system resolver itself is outside the property",
    "independent build.ninja parser: props/c19_buildplan.py parse_ninja "
    "(ninja manual, 'Lexical syntax'); the bundled ninja binary is used as a "
    "second reader where available",
]

ROOTS = ["/src/proj", "/src/my proj", "/src/a$b:c d", "/src/x:y", "/s p/$$",
         "/src/tab\there"]
OUTS = ["out", "out dir", "o$ut:1", "a b/c:d"]


def _mods():
  boot.ensure()
  import importlab.graph
  import importlab.resolve
  from pytype import module_utils
  from pytype.tools.analyze_project import parse_args, pytype_runner
  return importlab.graph, importlab.resolve, module_utils, parse_args, pytype_runner


# ------------------------------------------------------------------ project


def module_files(proj):
  """index -> (full path, module name, kind)."""
  root = proj["root"]
  out = []
  for i, m in enumerate(proj["modules"]):
    kind = m["kind"]
    base = "/usr/lib/py" if kind == "System" else root
    ext = m["ext"]
    if m.get("odd"):
      # names that are legal file / module names for a build step but unusual:
      # a module called `default` (like the generated default.pyi), and names
      # that differ only in a character outside [A-Za-z0-9_.-]
      stem = {"default": "default", "twin-a": "tw+n", "twin-b": "tw_n",
              "twin-c": "tw@n", "dash": "da-sh", "default-pkg": "default"}[
                  m["odd"]]
      if m["inpkg"] or m["odd"] == "default-pkg":
        name = "pk." + stem
        path = "%s/pk/%s.%s" % (base, stem, ext)
      else:
        name = stem
        path = "%s/%s.%s" % (base, stem, ext)
    elif m.get("pext"):
      # pytype's own extensions library is analysed even when it is a
      # System/Builtin module (pytype_runner.get_module_action)
      name = "pytype_extensions.m%d" % i
      path = "%s/pytype_extensions/m%d.%s" % (base, i, ext)
    elif m["init"]:
      name = "pkg%d" % i
      path = "%s/pkg%d/__init__.%s" % (base, i, ext)
    elif m["inpkg"]:
      name = "pk.m%d" % i
      path = "%s/pk/m%d.%s" % (base, i, ext)
    else:
      name = "m%d" % i
      path = "%s/m%d.%s" % (base, i, ext)
    out.append((path, name, kind))
  return out


def make_graph(proj):
  graph_mod, resolve, _, _, _ = _mods()
  files = module_files(proj)
  by_path = {f[0]: i for i, f in enumerate(files)}
  edges = {}
  for a, b in proj["edges"]:
    edges.setdefault(a, []).append(b)

  class TableGraph(graph_mod.DependencyGraph):

    def get_source_file_provenance(self, filename):
      i = by_path[filename]
      return resolve.Direct(filename, files[i][1])

    def get_file_deps(self, filename):
      i = by_path[filename]
      resolved = []
      for j in edges.get(i, []):
        path, name, kind = files[j]
        if kind == "System":
          prov = resolve.System(path, name)
        else:
          prov = resolve.Local(path, name, None)
        if path not in self.provenance or not isinstance(
            self.provenance[path], resolve.Direct):
          self.provenance[path] = prov
        resolved.append(path)
      unresolved = ["missing%d" % i] if i in proj.get("broken", []) else []
      return resolved, unresolved

  g = TableGraph()
  for i in proj["inputs"]:
    g.add_file_recursive(files[i][0], trim=True)
  g.build()
  return g, files


_CONF_PARSER = None


def make_conf(out_dir, inputs):
  global _CONF_PARSER
  _, _, _, parse_args, _ = _mods()
  if _CONF_PARSER is None:
    _CONF_PARSER = parse_args.make_parser()
  c = _CONF_PARSER.config_from_defaults()
  c.output = out_dir
  c.inputs = inputs
  return c


# ------------------------------------------------------------------ parser


def lex_paths(s):
  """Split a ninja 'build' line into tokens: unescaped paths, ':' and '|'."""
  toks = []
  cur = []
  has = False
  i = 0
  n = len(s)
  while i < n:
    ch = s[i]
    if ch == "$":
      if i + 1 >= n:
        raise ValueError("dangling $")
      nx = s[i + 1]
      if nx in " :$":
        cur.append(nx)
        has = True
        i += 2
        continue
      if nx == "\n":
        i += 2
        while i < n and s[i] == " ":
          i += 1
        continue
      raise ValueError("variable reference in path: %r" % s[i:i + 10])
    if ch == " ":
      if has:
        toks.append("".join(cur))
        cur, has = [], False
      i += 1
      continue
    if ch == ":":
      if has:
        toks.append("".join(cur))
        cur, has = [], False
      toks.append(":")
      i += 1
      continue
    if ch == "|":
      if has:
        toks.append("".join(cur))
        cur, has = [], False
      toks.append("|")
      i += 1
      continue
    cur.append(ch)
    has = True
    i += 1
  if has:
    toks.append("".join(cur))
  return toks


def unescape_value(s):
  """A variable value: `$ `, `$:`, `$$` escapes (no further expansion)."""
  out = []
  i = 0
  while i < len(s):
    if s[i] == "$" and i + 1 < len(s) and s[i + 1] in " :$":
      out.append(s[i + 1])
      i += 2
    else:
      out.append(s[i])
      i += 1
  return "".join(out)


def parse_ninja(text):
  """-> (rules, statements). statement: dict(outputs, rule, inputs, implicit,
  vars)."""
  rules = {}
  stmts = []
  cur = None
  for line in text.split("\n"):
    if not line.strip():
      continue
    if line.startswith("rule "):
      cur = {"_rule": line[5:].strip()}
      rules[cur["_rule"]] = cur
      continue
    if line.startswith("build "):
      toks = lex_paths(line[6:])
      c = toks.index(":")
      outputs = toks[:c]
      rest = toks[c + 1:]
      rule = rest[0]
      rest = rest[1:]
      if "|" in rest:
        p = rest.index("|")
        inputs, implicit = rest[:p], rest[p + 1:]
      else:
        inputs, implicit = rest, []
      cur = {"outputs": outputs, "rule": rule, "inputs": inputs,
             "implicit": implicit, "vars": {}}
      stmts.append(cur)
      continue
    if line.startswith("  ") and cur is not None:
      k, _, v = line.strip().partition(" = ")
      if "vars" in cur:
        cur["vars"][k] = unescape_value(v)
      else:
        cur[k] = v
      continue
    raise ValueError("unparsed ninja line: %r" % line)
  return rules, stmts


def read_imports(path):
  items = []
  with open(path) as f:
    for line in f:
      line = line.rstrip("\n")
      if line.strip():
        k, v = line.split(" ", 1)
        items.append((k, v))
  return items


_NINJA = None


def ninja_bin():
  global _NINJA
  if _NINJA is None:
    try:
      import ninja
      p = os.path.join(ninja.BIN_DIR, "ninja")
      _NINJA = p if os.path.exists(p) else ""
    except Exception:  # pylint: disable=broad-except
      _NINJA = ""
  return _NINJA


def real_ninja_edges(build_dir):
  """(inputs incl. implicit) -> output pairs as printed by `ninja -t graph`."""
  nb = ninja_bin()
  if not nb:
    return None
  r = subprocess.run([nb, "-C", build_dir, "-t", "targets", "all"],
                     capture_output=True, text=True)
  if r.returncode != 0:
    return ("error", r.stdout + r.stderr)
  outs = set()
  for line in r.stdout.splitlines():
    if line.startswith("ninja: Entering"):
      continue
    if ": " in line:
      outs.add(line.rsplit(": ", 1)[0])
  return ("ok", outs)


# ------------------------------------------------------------------ oracle


def topo_orders(stmts, deps_of, limit_all=7):
  """All linearisations if small, else a handful of systematic ones."""
  n = len(stmts)
  idx = range(n)
  if n <= limit_all:
    for perm in itertools.permutations(idx):
      pos = {s: k for k, s in enumerate(perm)}
      if all(pos[d] < pos[s] for s in idx for d in deps_of[s]):
        yield perm
    return
  for rule in ("min", "max", "alt"):
    done, order = set(), []
    flip = False
    while len(order) < n:
      ready = [s for s in idx if s not in done and
               all(d in done for d in deps_of[s])]
      if not ready:
        return
      if rule == "min":
        s = ready[0]
      elif rule == "max":
        s = ready[-1]
      else:
        s = ready[-1] if flip else ready[0]
        flip = not flip
      done.add(s)
      order.append(s)
    yield tuple(order)


def check_project(ctx, proj, tag, use_real_ninja=False):
  _, _, _, _, pytype_runner = _mods()
  case = {"project": proj}
  run_dir = os.path.join(boot.VERIF, ".run", "C19", "s%d" % ctx.shard)
  shutil.rmtree(run_dir, ignore_errors=True)
  out_dir = os.path.join(run_dir, proj["out"])
  os.makedirs(out_dir)
  try:
    g, files = make_graph(proj)
    sorted_sources = pytype_runner.deps_from_import_graph(g)
    inputs = [files[i][0] for i in proj["inputs"]]
    conf = make_conf(out_dir, inputs)
    runner = pytype_runner.PytypeRunner(conf, sorted_sources)
    built = runner.setup_build()
  except Violation:
    raise
  except Exception as e:  # pylint: disable=broad-except
    import traceback
    raise Violation("setup_build-raises:%s" % type(e).__name__,
                    traceback.format_exc()[-900:], case)
  with open(os.path.join(out_dir, "build.ninja")) as f:
    text = f.read()
  try:
    rules, stmts = parse_ninja(text)
  except Exception as e:  # pylint: disable=broad-except
    raise Violation("build.ninja-not-parseable", "%r\n%s" % (e, text[-800:]),
                    case)
  default_pyi = os.path.join(out_dir, "imports", "default.pyi")
  pyi_dir = os.path.join(out_dir, "pyi")

  # graph features -> non-triviality
  # effective import graph: importlab does not follow the imports of System
  # files (trim=True) and only sees what is reachable from the inputs
  eff = [(a, b) for a, b in proj["edges"]
         if proj["modules"][a]["kind"] != "System"]
  seen_mods = set(proj["inputs"])
  todo = list(proj["inputs"])
  while todo:
    x = todo.pop()
    for a, b in eff:
      if a == x and b not in seen_mods:
        seen_mods.add(b)
        todo.append(b)
  eff = [(a, b) for a, b in eff if a in seen_mods]
  reach = {i: set() for i in range(len(files))}
  for a, b in eff:
    reach[a].add(b)
  changed = True
  while changed:
    changed = False
    for a in reach:
      new = set()
      for b in reach[a]:
        new |= reach[b]
      if not new <= reach[a]:
        reach[a] |= new
        changed = True
  def is_src(i):
    m = proj["modules"][i]
    return m["ext"] == "py" and m["kind"] != "System"

  # a module is on a *source* cycle if it is mutually reachable with another
  # analysed source module (possibly through stubs)
  on_src_cycle = {i for i in reach if is_src(i) and any(
      j != i and is_src(j) and j in reach[i] and i in reach[j] for j in reach)}
  has_cycle = bool(on_src_cycle)
  indeg = {}
  for a, b in eff:
    indeg[b] = indeg.get(b, 0) + 1
  diamond = any(v >= 2 for v in indeg.values())
  has_sys = any(m["kind"] == "System" for m in proj["modules"])
  has_stub = any(m["ext"] == "pyi" for m in proj["modules"])
  py_sources = [i for i, m in enumerate(proj["modules"])
                if m["ext"] == "py" and m["kind"] != "System"]
  subset = len(proj["inputs"]) < len(py_sources)
  classes = [tag + ":projects"]
  for flag, nm in ((has_cycle, "cycle"), (diamond, "diamond"),
                   (has_sys, "system-module"), (has_stub, "stub-module"),
                   (subset, "requested-subset")):
    if flag:
      classes.append(tag + ":" + nm)
  nontriv = len(classes) > 1

  def sample():
    return "root=%r out=%r modules=%s edges=%s inputs=%s -> %d build statements" % (
        proj["root"], proj["out"],
        ["%s(%s,%s)" % (f[1], f[2][0], os.path.splitext(f[0])[1]) for f in files],
        proj["edges"], proj["inputs"], len(stmts))

  ctx.case(key=repr(proj), nontrivial=nontriv, sample=sample(),
           classes=classes)

  def chk(ok, sig, detail):
    ctx.check(ok, sig, detail + "\n" + sample() + "\n" + text[text.find("build "):][:1500], case)

  # 1. outputs unique, one output per statement, inside pyi dir
  outs = [o for s in stmts for o in s["outputs"]]
  chk(all(len(s["outputs"]) == 1 for s in stmts), "statement-without-single-output", "")
  chk(len(outs) == len(set(outs)), "duplicate-output",
      "two build statements declare the same output: %s" %
      sorted(o for o in outs if outs.count(o) > 1)[:2])
  by_out = {s["outputs"][0]: k for k, s in enumerate(stmts)}
  for s in stmts:
    chk(s["rule"] in ("check", "infer"), "unknown-rule", s["rule"])
    chk(s["outputs"][0].startswith(pyi_dir + os.sep), "path-not-preserved",
        "output %r not under %r" % (s["outputs"][0], pyi_dir))
    chk(len(s["inputs"]) == 1, "statement-without-single-input",
        repr(s["inputs"]))
  # 8. paths survive unchanged
  all_paths = {f[0] for f in files}
  for s in stmts:
    chk(s["inputs"][0] in all_paths, "path-not-preserved",
        "input %r is not a project file" % (s["inputs"][0],))
    imp = s["vars"].get("imports", "")
    chk(os.path.exists(imp) and
        imp.startswith(os.path.join(out_dir, "imports") + os.sep),
        "path-not-preserved", "imports file %r does not exist" % imp)
  # 2. exactly one check per requested file, no other checks
  requested = set(inputs)
  checks = [s["inputs"][0] for s in stmts if s["rule"] == "check"]
  expect_checked = {p for p in requested
                    if dict((f[0], f[2]) for f in files)[p] != "System"}
  chk(sorted(checks) == sorted(expect_checked), "wrong-set-of-checked-files",
      "checked %s, requested %s" % (sorted(checks), sorted(expect_checked)))
  # 3/4. imports maps
  deps_of = {}
  for k, s in enumerate(stmts):
    ds = set()
    for d in s["implicit"]:
      chk(d in by_out, "dependency-on-undeclared-output",
          "statement for %s depends on %r which no statement produces" %
          (s["outputs"][0], d))
      ds.add(by_out[d])
    deps_of[k] = ds
  # 5. acyclic + closure
  closure = {}

  def clo(k, stack=()):
    if k in closure:
      return closure[k]
    if k in stack:
      raise Violation("dependency-cycle-in-plan", "statement %s" %
                      stmts[k]["outputs"][0], case)
    r = set()
    for d in deps_of[k]:
      r.add(d)
      r |= clo(d, stack + (k,))
    closure[k] = r
    return r

  for k in range(len(stmts)):
    clo(k)
  reads = {}
  for k, s in enumerate(stmts):
    items = read_imports(s["vars"]["imports"])
    rs = set()
    for key, val in items:
      if val == default_pyi:
        continue
      chk(val in by_out, "imports-map-entry-not-a-declared-output",
          "%s: imports map maps %r to %r, which no build statement produces" %
          (s["outputs"][0], key, val))
      t = by_out[val]
      chk(t in closure[k], "reads-stub-without-declared-dependency",
          "%s reads %r (imports map) but does not depend on the statement "
          "producing it" % (s["outputs"][0], val))
      rs.add(t)
    reads[k] = rs
  # completeness w.r.t. the import graph: every resolved .py import of a
  # module that is analysed appears in its (final) imports map
  path_to_idx = {f[0]: i for i, f in enumerate(files)}
  final_stmt = {}
  for k, s in enumerate(stmts):
    if not s["outputs"][0].endswith("-1"):
      final_stmt[path_to_idx[s["inputs"][0]]] = k
  for a, b in eff:
    if a in final_stmt and proj["modules"][b]["ext"] == "py" and a != b:
      vals = {v for _, v in read_imports(stmts[final_stmt[a]]["vars"]["imports"])}
      keys = {k_ for k_, _ in read_imports(stmts[final_stmt[a]]["vars"]["imports"])}
      exp_key = os.path.splitext(files[b][0])[0]
      ok = any(exp_key.endswith(k_) or k_.replace("/", ".") in files[b][1] + ".__init__"
               for k_ in keys)
      chk(ok, "imported-module-missing-from-imports-map",
          "%s imports %s but its imports map has keys %s" %
          (files[a][1], files[b][1], sorted(keys)))
  # 6. cycles -> first pass feeding second pass
  if has_cycle:
    for k, s in enumerate(stmts):
      if s["outputs"][0].endswith("-1"):
        continue
      i = path_to_idx[s["inputs"][0]]
      if i in on_src_cycle:   # module on a cycle, second pass
        firsts = [t for t in reads[k] if stmts[t]["outputs"][0].endswith("-1")]
        later = [t for t in reads[k] if not stmts[t]["outputs"][0].endswith("-1")
                 and path_to_idx[stmts[t]["inputs"][0]] in reach[i] and
                 i in reach[path_to_idx[stmts[t]["inputs"][0]]]]
        chk(bool(firsts) or bool(later), "cycle-member-reads-no-pass-output",
            "%s is on an import cycle but reads no output of the cycle" %
            s["outputs"][0])
  # 7. execute schedules against a simulated file system
  n_sched = 0
  for order in topo_orders(stmts, deps_of):
    fs = {default_pyi} | all_paths
    for k in order:
      s = stmts[k]
      for _, val in read_imports(s["vars"]["imports"]):
        chk(val in fs, "schedule-reads-missing-stub",
            "schedule %s: %s reads %r before it is produced" %
            ([stmts[x]["outputs"][0][len(pyi_dir):] for x in order],
             s["outputs"][0], val))
      fs.add(s["outputs"][0])
    n_sched += 1
    if n_sched >= 400:
      break
  ctx.event(tag + ":schedules-executed", n_sched)
  if use_real_ninja:
    r = real_ninja_edges(out_dir)
    if r is not None:
      chk(r[0] == "ok", "real-ninja-rejects-plan", str(r[1])[:400])
      if r[0] == "ok":
        chk(r[1] == set(outs), "real-ninja-reads-different-outputs",
            "ninja: %s\nparser: %s" % (sorted(r[1]), sorted(outs)))
        ctx.event(tag + ":cross-checked-with-real-ninja")
  shutil.rmtree(run_dir, ignore_errors=True)


# ------------------------------------------------------------------ search


def module_variants(n, rich):
  basic = [dict(kind="Local", ext="py", init=False, inpkg=False)]
  more = [dict(kind="System", ext="py", init=False, inpkg=False),
          dict(kind="Local", ext="pyi", init=False, inpkg=False),
          dict(kind="Local", ext="py", init=True, inpkg=False),
          dict(kind="Local", ext="py", init=False, inpkg=True),
          dict(kind="System", ext="py", init=False, inpkg=False, pext=True)]
  opts = basic + (more if rich else more[:2])
  return itertools.product(opts, repeat=n)


ODD = ["default", "default-pkg", "twin-a", "twin-b", "twin-c", "dash"]


def exhaustive_odd_names(ctx, n, stride=1):
  """All digraphs on n Local .py modules whose names are n distinct picks
  from ODD plus the plain name, every non-empty requested subset."""
  pairs = [(a, b) for a in range(n) for b in range(n) if a != b]
  idx = 0
  names = [None] + ODD
  for picks in itertools.permutations(names, n):
    if not any(picks):
      continue
    mods = [dict(kind="Local", ext="py", init=False, inpkg=False,
                 **({"odd": o} if o else {})) for o in picks]
    for mask in range(1 << len(pairs)):
      edges = [list(pairs[i]) for i in range(len(pairs)) if mask >> i & 1]
      for r in range(1, n + 1):
        for inputs in itertools.combinations(range(n), r):
          idx += 1
          if idx % (ctx.nshards * stride) != ctx.shard * stride:
            continue
          proj = {"root": ROOTS[idx % len(ROOTS)], "out": OUTS[idx % len(OUTS)],
                  "modules": [dict(m) for m in mods], "edges": edges,
                  "inputs": list(inputs), "broken": []}
          check_project(ctx, proj, "O%d" % n, use_real_ninja=False)


def exhaustive_dags(ctx, n, stride=1):
  """Every acyclic import graph on n plain source modules whose edges go from
  a higher to a lower index (every DAG up to renaming), all modules requested:
  shared dependencies at every depth, consumers before and after each other."""
  pairs = [(a, b) for a in range(n) for b in range(a)]
  idx = 0
  for mask in range(1 << len(pairs)):
    idx += 1
    if idx % (ctx.nshards * stride) != ctx.shard * stride:
      continue
    edges = [list(pairs[i]) for i in range(len(pairs)) if mask >> i & 1]
    proj = {"root": ROOTS[idx % len(ROOTS)], "out": OUTS[idx % len(OUTS)],
            "modules": [dict(kind="Local", ext="py", init=False, inpkg=False)
                        for _ in range(n)],
            "edges": edges, "inputs": list(range(n)), "broken": []}
    check_project(ctx, proj, "D%d" % n, use_real_ninja=False)


def exhaustive(ctx, n, rich, real_every):
  pairs = [(a, b) for a in range(n) for b in range(n) if a != b]
  idx = 0
  for mask in range(1 << len(pairs)):
    edges = [list(pairs[i]) for i in range(len(pairs)) if mask >> i & 1]
    for mods in module_variants(n, rich):
      srcs = [i for i, m in enumerate(mods)
              if m["ext"] == "py" and m["kind"] != "System"]
      for r in range(1, len(srcs) + 1):
        for inputs in itertools.combinations(srcs, r):
          idx += 1
          if idx % ctx.nshards != ctx.shard:
            continue
          proj = {"root": ROOTS[idx % len(ROOTS)], "out": OUTS[idx % len(OUTS)],
                  "modules": [dict(m) for m in mods], "edges": edges,
                  "inputs": list(inputs),
                  "broken": [0] if idx % 5 == 0 else []}
          check_project(ctx, proj, "E%d" % n,
                        use_real_ninja=(idx % real_every == ctx.shard))


def project_strategy():
  from hypothesis import strategies as st

  @st.composite
  def projects(draw):
    n = draw(st.integers(2, 6))
    shape = draw(st.sampled_from(["random", "chain", "cycle", "diamond",
                                  "two_cycles"]))
    edges = set()
    if shape == "chain":
      edges |= {(i, i + 1) for i in range(n - 1)}
    elif shape == "cycle":
      k = draw(st.integers(2, n))
      edges |= {(i, (i + 1) % k) for i in range(k)}
    elif shape == "diamond" and n >= 4:
      edges |= {(0, 1), (0, 2), (1, 3), (2, 3)}
    elif shape == "two_cycles" and n >= 4:
      edges |= {(0, 1), (1, 0), (2, 3), (3, 2), (1, 2)}
    extra = draw(st.lists(st.tuples(st.integers(0, n - 1),
                                    st.integers(0, n - 1)), max_size=6))
    edges |= {(a, b) for a, b in extra if a != b}
    mods = []
    for _ in range(n):
      kind = draw(st.sampled_from(["Local", "Local", "Local", "System"]))
      ext = draw(st.sampled_from(["py", "py", "py", "pyi"]))
      lay = draw(st.sampled_from(["plain", "plain", "init", "inpkg"]))
      mods.append(dict(kind=kind, ext=ext, init=lay == "init",
                       inpkg=lay == "inpkg",
                       pext=(kind == "System" and draw(st.integers(0, 2)) == 0)))
    # a few unusual names (each at most once per project)
    for o in draw(st.lists(st.sampled_from(ODD), max_size=3, unique=True)):
      k = draw(st.integers(0, n - 1))
      if not mods[k].get("odd") and not mods[k]["init"] and not mods[k].get(
          "pext"):
        mods[k] = dict(mods[k], odd=o, inpkg=False)
    srcs = [i for i, m in enumerate(mods)
            if m["ext"] == "py" and m["kind"] != "System"]
    if not srcs:
      mods[0] = dict(kind="Local", ext="py", init=False, inpkg=False)
      srcs = [0]
    inputs = draw(st.lists(st.sampled_from(srcs), min_size=1,
                           max_size=len(srcs), unique=True))
    return {"root": draw(st.sampled_from(ROOTS)),
            "out": draw(st.sampled_from(OUTS)),
            "modules": mods, "edges": sorted(map(list, edges)),
            "inputs": sorted(inputs),
            "broken": draw(st.lists(st.integers(0, n - 1), max_size=1))}

  return projects()


def run_shard(ctx):
  boot.ensure()
  import logging
  logging.disable(logging.CRITICAL)
  if ctx.quick():
    exhaustive(ctx, 2, rich=True, real_every=40)
    exhaustive(ctx, 3, rich=True, real_every=997)
    exhaustive_odd_names(ctx, 2)
    exhaustive_odd_names(ctx, 3, stride=8)
    exhaustive_dags(ctx, 4)
    exhaustive_dags(ctx, 5)
    n = 100
  else:
    exhaustive(ctx, 2, rich=True, real_every=16)
    exhaustive(ctx, 3, rich=True, real_every=499)
    exhaustive(ctx, 4, rich=False, real_every=9973)
    exhaustive_odd_names(ctx, 2)
    exhaustive_odd_names(ctx, 3)
    exhaustive_dags(ctx, 4)
    exhaustive_dags(ctx, 5)
    exhaustive_dags(ctx, 6)
    n = 6000
  counter = [0]

  def body(proj):
    counter[0] += 1
    check_project(ctx, proj, "R", use_real_ninja=(counter[0] % 10 == 0))

  hyp_run(ctx, project_strategy(), body, n, label="R")


def replay(ctx, case):
  import logging
  logging.disable(logging.CRITICAL)
  check_project(ctx, case["project"], "replay", use_real_ninja=True)
