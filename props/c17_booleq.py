"""C17 - boolean-equation terms are equivalent to the plain connectives.

Exhaustive enumeration (no randomness): all terms built through the public
constructors And/Or/Eq from a pool of atoms, level by level; truth tables over
every assignment vars -> values, computed by an independent evaluator that
reads the returned term structurally.  simplify(table) is compared on every
assignment drawn from the table, for every table {var -> non-empty subset}.
"""

import itertools

from vlib import boot
from vlib.run import Violation

ID = "C17"
RULE = (
    "case = one constructor call And/Or(children) (children = previously built "
    "terms, ordered tuples incl. duplicates) or one term.simplify(table) call; "
    "truth tables over all assignments vars->values. Non-trivial construction "
    "= one whose children contain TRUE/FALSE (absorption), a term of the same "
    "connective (flattening), duplicate children, or a var=var equality; "
    "non-trivial simplify = table removes >=1 value and the term mentions a "
    "removed (var,value) pair or a var=var atom. distinct = distinct "
    "(op, child keys) / (term key, table).")
ASSUMPTIONS = [
    "atoms are Eq(var,value), Eq(var,var), Eq(x,x), TRUE, FALSE with variable "
    "names sorting above value names, as booleq.Eq documents; Eq(value,value') "
    "is outside the domain (simplify would index the table by a value)",
    "every variable of a term is a key of the restriction table and every set "
    "is non-empty, as Solver.solve guarantees for its caller",
]


class U:
  """A universe: variables, values, all assignments, mask helpers."""

  def __init__(self, nvars, nvals):
    self.vars = ["~a", "~b", "~c"][:nvars]
    self.vals = ["1", "2", "3"][:nvals]
    self.sigmas = [dict(zip(self.vars, c))
                   for c in itertools.product(self.vals, repeat=nvars)]
    self.full = (1 << len(self.sigmas)) - 1
    self.tables = []
    subsets = [frozenset(s) for r in range(1, nvals + 1)
               for s in itertools.combinations(self.vals, r)]
    for combo in itertools.product(subsets, repeat=nvars):
      tab = dict(zip(self.vars, combo))
      m = 0
      for i, s in enumerate(self.sigmas):
        if all(s[v] in tab[v] for v in self.vars):
          m |= 1 << i
      self.tables.append((tab, m))


def make_eval(B, u):
  """Independent evaluator: returned term -> truth-table bitmask."""
  cache = {}

  def mask(t, store=False):
    k = id(t)
    if k in cache and cache[k][0] is t:
      return cache[k][1]
    if t is B.TRUE:
      m = u.full
    elif t is B.FALSE:
      m = 0
    elif isinstance(t, B._Eq):  # pylint: disable=protected-access
      m = 0
      for i, s in enumerate(u.sigmas):
        if s.get(t.left, t.left) == s.get(t.right, t.right):
          m |= 1 << i
    elif isinstance(t, B._And):  # pylint: disable=protected-access
      m = u.full
      for c in t.exprs:
        m &= mask(c, store)
    elif isinstance(t, B._Or):  # pylint: disable=protected-access
      m = 0
      for c in t.exprs:
        m |= mask(c, store)
    else:
      raise Violation("unknown-term-class", "returned %r" % (t,), None)
    if store:  # only pool terms (kept alive anyway) are memoised
      cache[k] = (t, m)
    return m

  return mask


def key(B, t):
  if t is B.TRUE:
    return "T"
  if t is B.FALSE:
    return "F"
  if isinstance(t, B._Eq):  # pylint: disable=protected-access
    return "%s=%s" % (t.left, t.right)
  tag = "&" if isinstance(t, B._And) else "|"  # pylint: disable=protected-access
  return tag + "(" + ",".join(sorted(key(B, c) for c in t.exprs)) + ")"


def shape_ok(B, t):
  """A returned _And/_Or has >=2 children, none TRUE/FALSE/own class."""
  if isinstance(t, (B._And, B._Or)):  # pylint: disable=protected-access
    if len(t.exprs) < 2:
      return False
    for c in t.exprs:
      if c is B.TRUE or c is B.FALSE or type(c) is type(t):
        return False
      if not shape_ok(B, c):
        return False
  return True


def atoms(B, u):
  out = [("T", B.TRUE), ("F", B.FALSE)]
  for v in u.vars:
    for x in u.vals:
      out.append(("Eq(%s,%s)" % (v, x), B.Eq(v, x)))
      out.append(("Eq(%s,%s)" % (x, v), B.Eq(x, v)))
  for v in u.vars:
    for w in u.vars:
      out.append(("Eq(%s,%s)" % (v, w), B.Eq(v, w)))
  return out


def has_varvar(B, u, t):
  if isinstance(t, B._Eq):  # pylint: disable=protected-access
    return t.right in u.vars
  if isinstance(t, (B._And, B._Or)):  # pylint: disable=protected-access
    return any(has_varvar(B, u, c) for c in t.exprs)
  return False


def tables_same_size(u, tab):
  """Other tables of the universe with the same total number of values."""
  n = sum(len(v) for v in tab.values())
  cache = u.__dict__.setdefault("_by_size", {})
  if n not in cache:
    cache[n] = [(t, tm) for t, tm in u.tables
                if sum(len(v) for v in t.values()) == n]
  return [(t, tm) for t, tm in cache[n] if t is not tab]


def explore(ctx, nvars, nvals, plan, tag, simplify_cap=None):
  """plan: list of (max_arity, cap or None) for depth 1, 2, ..."""
  from pytype.pytd import booleq as B
  u = U(nvars, nvals)
  mask = make_eval(B, u)
  counter = [0]
  complete = True

  # ---- atoms: check Eq against ==
  pool = {}
  for desc, t in atoms(B, u):
    inner = desc[3:-1].split(",") if desc.startswith("Eq(") else None
    if inner:
      exp = 0
      for i, s in enumerate(u.sigmas):
        if s.get(inner[0], inner[0]) == s.get(inner[1], inner[1]):
          exp |= 1 << i
      ok = mask(t) == exp and shape_ok(B, t)
      if isinstance(t, B._Eq):  # pylint: disable=protected-access
        ok = ok and t.left > t.right
      if ctx.shard == 0:
        ctx.case(key=tag + desc, nontrivial=inner[0] in u.vars and
                 inner[1] in u.vars, classes=[tag + ":atom"])
      ctx.check(ok, "Eq-not-equivalent", "%s -> %r" % (desc, t),
                {"universe": [nvars, nvals], "build": desc})
    pool.setdefault(key(B, t), t)
  for t in pool.values():
    mask(t, True)

  all_terms = dict(pool)
  for depth, (max_arity, cap) in enumerate(plan, start=1):
    children = list(all_terms.values())
    new_terms = {}
    n_done = 0
    for opname, op, cls in (("And", B.And, B._And), ("Or", B.Or, B._Or)):  # pylint: disable=protected-access
      for arity in range(0, max_arity + 1):
        for combo in itertools.product(children, repeat=arity):
          counter[0] += 1
          n_done += 1
          if cap is not None and n_done > cap:
            complete = False
            break
          # every shard must know all terms of this level, but only its own
          # share of constructions is *checked*.
          r = op(list(combo))
          kr = key(B, r)
          if kr not in all_terms:
            new_terms.setdefault(kr, r)
          if counter[0] % ctx.nshards != ctx.shard:
            continue
          if opname == "And":
            exp = u.full
            for c in combo:
              exp &= mask(c)
          else:
            exp = 0
            for c in combo:
              exp |= mask(c)
          got = mask(r)
          ckeys = [key(B, c) for c in combo]
          nontriv = (any(c is B.TRUE or c is B.FALSE for c in combo) or
                     any(isinstance(c, cls) for c in combo) or
                     len(set(ckeys)) < len(ckeys) or
                     any(has_varvar(B, u, c) for c in combo))
          ctx.case(key="%s%s(%s)" % (tag, opname, ";".join(ckeys)),
                   nontrivial=nontriv,
                   sample=("%s %s([%s]) -> %s" % (tag, opname,
                                                   ", ".join(ckeys), kr)
                           if counter[0] % 4001 == ctx.shard else None),
                   classes=["%s:d%d:%s" % (tag, depth, opname)])
          case = {"universe": [nvars, nvals], "op": opname,
                  "children": [repr(c) for c in combo]}
          ctx.check(got == exp, "%s-not-equivalent" % opname,
                    "%s(%s) -> %r: truth table %x, expected %x" %
                    (opname, ckeys, r, got, exp), case)
          ctx.check(shape_ok(B, r), "%s-shape" % opname,
                    "%s(%s) -> %r not in normal form" % (opname, ckeys, r),
                    case)
        else:
          continue
        break
    all_terms.update(new_terms)
    for t in new_terms.values():
      mask(t, True)

  # ---- simplify against every table
  terms = list(all_terms.items())
  if simplify_cap is not None and len(terms) > simplify_cap:
    complete = False
    # keep every shallow term and an evenly strided slice of the rest
    step = len(terms) // simplify_cap + 1
    terms = terms[:2000] + terms[2000::step]
  for ti, (kt, t) in enumerate(terms):
    if ti % ctx.nshards != ctx.shard:
      continue
    mt = mask(t)
    eqs = None
    # Every other term is simplified against ONE dict object that is refilled
    # in place for each table (what Solver.solve does with its assignments);
    # the others get a fresh dict per call.  The answer may depend on the
    # table's contents only.
    shared = {} if (ti // ctx.nshards) % 2 == 0 else None
    for tab, tm in u.tables:
      try:
        if shared is not None:
          shared.clear()
          shared.update({k: set(v) for k, v in tab.items()})
          r = t.simplify(shared)
        else:
          r = t.simplify({k: set(v) for k, v in tab.items()})
      except Violation:
        raise
      except Exception as e:  # pylint: disable=broad-except
        raise Violation("simplify-raises", "%r.simplify(%r): %r" % (t, tab, e),
                        {"universe": [nvars, nvals], "term": repr(t),
                         "table": {k: sorted(v) for k, v in tab.items()}})
      mr = mask(r)
      removes = tm != u.full
      if removes:
        if eqs is None:
          eqs = set(t.extract_equalities())
        touched = any((rt in u.vars) or (rt not in tab[lf])
                      for lf, rt in eqs)
      else:
        touched = False
      ctx.case(key="%ssimp(%s|%s)" % (tag, kt, sorted(
          (k, sorted(v)) for k, v in tab.items())),
               nontrivial=touched,
               sample=("%s %s .simplify(%s) -> %s" % (
                   tag, kt, {k: sorted(v) for k, v in tab.items()},
                   key(B, r)) if (ti * 7 + tm) % 5003 == 0 else None),
               classes=[tag + ":simplify"])
      case = {"universe": [nvars, nvals], "term": repr(t),
              "table": {k: sorted(v) for k, v in tab.items()}}
      ctx.check((mr & tm) == (mt & tm), "simplify-not-equivalent",
                "%r.simplify(%r) -> %r differs on an assignment from the "
                "table" % (t, tab, r), case)
      ctx.check(shape_ok(B, r), "simplify-shape",
                "%r.simplify(%r) -> %r not in normal form" % (t, tab, r), case)
    # extract_equalities covers every atom of the term
    got = set(t.extract_equalities())
    exp = set()

    def walk(x):
      if isinstance(x, B._Eq):  # pylint: disable=protected-access
        exp.add((x.left, x.right))
      elif isinstance(x, (B._And, B._Or)):  # pylint: disable=protected-access
        for c in x.exprs:
          walk(c)

    walk(t)
    ctx.check(exp <= got, "extract_equalities-misses-atom",
              "%r: %r not all in %r" % (t, exp, got),
              {"universe": [nvars, nvals], "term": repr(t)})
  ctx.extra["terms_" + tag] = len(terms) if ctx.shard == 0 else 0
  return complete


def random_deep(ctx, n, nvars, nvals, tag):
  """Hypothesis: deep random construction trees (depth <= 5, arity <= 4),
  every constructor call checked, plus simplify against random tables."""
  from hypothesis import strategies as st
  from pytype.pytd import booleq as B
  from vlib.run import hyp_run
  u = U(nvars, nvals)
  names = u.vars + u.vals
  eq = st.tuples(st.just("eq"), st.sampled_from(u.vars),
                 st.sampled_from(names))
  # TRUE/FALSE leaves are kept rare: they absorb whole subtrees
  leaf = st.one_of([eq] * 10 + [st.just(("T",)), st.just(("F",))])
  tree = st.recursive(
      leaf, lambda ch: st.tuples(st.sampled_from(["and", "or"]),
                                 st.lists(ch, min_size=0, max_size=4)),
      max_leaves=10)
  tabs = st.lists(st.integers(0, len(u.tables) - 1), min_size=1, max_size=4)

  def body(x):
    t, tis = x
    mask = make_eval(B, u)
    depth = [0]

    def build(node, d):
      depth[0] = max(depth[0], d)
      if node[0] == "T":
        return B.TRUE, u.full
      if node[0] == "F":
        return B.FALSE, 0
      if node[0] == "eq":
        r = B.Eq(node[1], node[2])
        exp = 0
        for i, s in enumerate(u.sigmas):
          if s.get(node[1], node[1]) == s.get(node[2], node[2]):
            exp |= 1 << i
        ctx.check(mask(r) == exp, "Eq-not-equivalent", "%r -> %r" % (node, r),
                  {"universe": [nvars, nvals], "tree": node})
        return r, exp
      built = [build(c, d + 1) for c in node[1]]
      terms = [b[0] for b in built]
      before = [key(B, t) for t in terms]
      if node[0] == "and":
        r = B.And(terms)
        exp = u.full
        for _, m in built:
          exp &= m
      else:
        r = B.Or(terms)
        exp = 0
        for _, m in built:
          exp |= m
      opname = "And" if node[0] == "and" else "Or"
      case = {"universe": [nvars, nvals], "op": opname,
              "children": [repr(c) for c in terms]}
      ctx.check(mask(r) == exp, "%s-not-equivalent" % opname,
                "%s(%s) -> %r" % (opname, before, r), case)
      ctx.check(shape_ok(B, r), "%s-shape" % opname,
                "%s(%s) -> %r not in normal form" % (opname, before, r), case)
      # constructing a term must not change the terms it was built from
      ctx.check(before == [key(B, t) for t in terms],
                "constructor-mutates-operand",
                "%s(%s) changed an operand" % (opname, before), case)
      for (t0, m0) in built:
        ctx.check(mask(t0) == m0, "constructor-mutates-operand",
                  "%s(%s) changed an operand's meaning" % (opname, before),
                  case)
      return r, exp

    r, exp = build(t, 0)
    kr = key(B, r)
    ctx.case(key=tag + repr(t), nontrivial=depth[0] >= 3,
             sample="%s deep tree depth %d -> %s" % (tag, depth[0], kr[:200]),
             classes=["%s:deep:d%d" % (tag, min(depth[0], 5))])
    for ti in tis:
      tab, tm = u.tables[ti]
      rs = r.simplify({k: set(v) for k, v in tab.items()})
      case = {"universe": [nvars, nvals], "term": repr(r),
              "table": {k: sorted(v) for k, v in tab.items()}}
      # the same term object and the same dict object, contents replaced
      inplace = {k: set(v) for k, v in tab.items()}
      rs1 = r.simplify(inplace)
      for other_tab, other_tm in tables_same_size(u, tab)[:3]:
        inplace.clear()
        inplace.update({k: set(v) for k, v in other_tab.items()})
        rs2 = r.simplify(inplace)
        ctx.check((mask(rs2) & other_tm) == (exp & other_tm),
                  "simplify-not-equivalent",
                  "%r.simplify(table refilled in place with %r) -> %r" % (
                      r, other_tab, rs2),
                  dict(case, refilled_with={k: sorted(v) for k, v in
                                            other_tab.items()}))
      del rs1
      ctx.check((mask(rs) & tm) == (exp & tm), "simplify-not-equivalent",
                "%r.simplify(%r) -> %r" % (r, tab, rs), case)
      ctx.check(shape_ok(B, rs), "simplify-shape",
                "%r.simplify(%r) -> %r" % (r, tab, rs), case)
      ctx.check(key(B, r) == kr, "simplify-mutates-term", repr(r), case)

  hyp_run(ctx, st.tuples(tree, tabs), body, n, label=tag)


def chains(ctx, nvars, nvals, depth, tag):
  """Exhaustive right-nested chains op1([a1, op2([a2, ... opk([ak, ak+1])])])
  over all atoms and all connective choices: the alternation patterns
  (absorption-like rewrites) that bounded-arity levels reach only late."""
  from pytype.pytd import booleq as B
  u = U(nvars, nvals)
  mask = make_eval(B, u)
  pool = {}
  for _, t in atoms(B, u):
    pool.setdefault(key(B, t), t)
  ats = list(pool.values())
  for t in ats:
    mask(t, True)
  idx = 0
  for ops in itertools.product((0, 1), repeat=depth):
    for leaves in itertools.product(ats, repeat=depth + 1):
      idx += 1
      if idx % ctx.nshards != ctx.shard:
        continue
      term = leaves[-1]
      exp = mask(term)
      for k in range(depth - 1, -1, -1):
        a = leaves[k]
        if ops[k]:
          term = B.And([a, term])
          exp = mask(a) & exp
        else:
          term = B.Or([a, term])
          exp = mask(a) | exp
      got = mask(term)
      ctx.case(key=(tag, ops, tuple(key(B, x) for x in leaves)),
               nontrivial=len(set(ops)) > 1,
               sample=("%s chain ops=%s leaves=%s -> %s" % (
                   tag, ops, [key(B, x) for x in leaves], key(B, term))
                       if idx % 20011 == ctx.shard else None),
               classes=[tag + ":chain"])
      case = {"universe": [nvars, nvals], "chain_ops": list(ops),
              "leaves": [repr(x) for x in leaves]}
      ctx.check(got == exp, "chain-not-equivalent",
                "ops=%s leaves=%s -> %r" % (ops, [key(B, x) for x in leaves],
                                            term), case)
      ctx.check(shape_ok(B, term), "chain-shape", repr(term), case)


def run_shard(ctx):
  boot.ensure()
  chains(ctx, 2, 2, 3 if ctx.quick() else 4, "C22")
  chains(ctx, 3, 3 if not ctx.quick() else 2, 3, "C3x")
  random_deep(ctx, 400 if ctx.quick() else 20000, 2, 2, "R22")
  random_deep(ctx, 400 if ctx.quick() else 20000, 3, 3, "R33")
  if ctx.quick():
    c1 = explore(ctx, 3, 3, [(3, None), (2, None)], "U33", simplify_cap=6000)
    c2 = explore(ctx, 2, 2, [(3, None), (3, None)], "U22")
    ctx.extra["exhaustive_parts"] = (
        "constructions: U33 (3 vars x 3 values) depth 1 arity<=3 and depth 2 "
        "arity<=2 complete=%s; U22 depth<=2 arity<=3 complete=%s; simplify: "
        "all 343 / 9 tables for every U22 term and a strided 6000-term slice "
        "of U33 terms" % (c1, c2))
  else:
    c1 = explore(ctx, 3, 3, [(3, None), (2, None)], "U33", simplify_cap=120000)
    c2 = explore(ctx, 2, 2, [(3, None), (3, None), (2, 8000000)], "U22",
                 simplify_cap=400000)
    c3 = explore(ctx, 2, 3, [(3, None), (2, None)], "U23", simplify_cap=200000)
    c4 = explore(ctx, 3, 2, [(3, None), (2, None)], "U32", simplify_cap=200000)
    ctx.extra["exhaustive_parts"] = (
        "constructions: U33/U23/U32 depth 1 arity<=3 + depth 2 arity<=2 "
        "complete; U22 depth<=2 arity<=3 complete, depth 3 arity<=2 prefix of "
        "8e6; simplify over all tables for a strided slice where capped "
        "(flags: %s %s %s %s)" % (c1, c2, c3, c4))


def _parse_term(B, s):
  return eval(s, {"Eq": B._Eq, "And": lambda l: B._And(set(l)),  # pylint: disable=eval-used,protected-access
                  "Or": lambda l: B._Or(set(l)), "TRUE": B.TRUE,
                  "FALSE": B.FALSE})


def replay(ctx, case):
  from pytype.pytd import booleq as B
  nvars, nvals = case["universe"]
  u = U(nvars, nvals)
  mask = make_eval(B, u)
  ctx.case(key=repr(case), nontrivial=True)
  if "op" in case:
    ch = [_parse_term(B, c) for c in case["children"]]
    op = B.And if case["op"] == "And" else B.Or
    r = op(ch)
    if case["op"] == "And":
      exp = u.full
      for c in ch:
        exp &= mask(c)
    else:
      exp = 0
      for c in ch:
        exp |= mask(c)
    if mask(r) != exp:
      raise Violation("%s-not-equivalent" % case["op"], repr(r), case)
    if not shape_ok(B, r):
      raise Violation("%s-shape" % case["op"], repr(r), case)
  elif "table" in case:
    t = _parse_term(B, case["term"])
    tab = {k: set(v) for k, v in case["table"].items()}
    tm = 0
    for i, s in enumerate(u.sigmas):
      if all(s[v] in tab[v] for v in u.vars):
        tm |= 1 << i
    r = t.simplify(tab)
    if (mask(r) & tm) != (mask(t) & tm):
      raise Violation("simplify-not-equivalent", repr(r), case)
    if not shape_ok(B, r):
      raise Violation("simplify-shape", repr(r), case)
  elif "chain_ops" in case:
    leaves = [_parse_term(B, c) for c in case["leaves"]]
    ops = case["chain_ops"]
    term = leaves[-1]
    exp = mask(term)
    for k in range(len(ops) - 1, -1, -1):
      a = leaves[k]
      if ops[k]:
        term = B.And([a, term]); exp = mask(a) & exp
      else:
        term = B.Or([a, term]); exp = mask(a) | exp
    if mask(term) != exp:
      raise Violation("chain-not-equivalent", repr(term), case)
  elif "tree" in case:
    pass
  elif "build" in case:
    d = case["build"]
    a, b = d[3:-1].split(",")
    t = B.Eq(a, b)
    exp = 0
    for i, s in enumerate(u.sigmas):
      if s.get(a, a) == s.get(b, b):
        exp |= 1 << i
    if mask(t) != exp:
      raise Violation("Eq-not-equivalent", repr(t), case)
