"""C05 part (A): stubs emitted for generated programs; plus the independent
'shape' reader (Python's own ast module) used by parts (A) and (B)."""

import ast as pyast

from vlib import an, boot, gen_py
from vlib.run import Violation, hyp_run


def shape_from_text(text):
  """Read a stub with Python's ast module: the declarations it contains.

  -> dict  path -> description, where path is 'f' / 'C.m' / 'C' / 'x'.
  Functions: list of overloads, each (params, decorators) with
  params = [(name, kind, has_default)], kind in pos/reg/kw/star/starstar.
  """
  tree = pyast.parse(text)
  out = {}

  def params_of(fn):
    a = fn.args
    ps = []
    npos = len(a.posonlyargs) + len(a.args)
    ndef = len(a.defaults)
    allpos = [(x, "pos") for x in a.posonlyargs] + [(x, "reg") for x in a.args]
    for i, (x, k) in enumerate(allpos):
      ps.append((x.arg, k, i >= npos - ndef))
    if a.vararg:
      ps.append((a.vararg.arg, "star", False))
    for x, d in zip(a.kwonlyargs, a.kw_defaults):
      ps.append((x.arg, "kw", d is not None))
    if a.kwarg:
      ps.append((a.kwarg.arg, "starstar", False))
    return ps

  def deco_names(fn):
    names = []
    for d in fn.decorator_list:
      if isinstance(d, pyast.Name):
        names.append(d.id)
      elif isinstance(d, pyast.Attribute):
        names.append(d.attr)
    return sorted(n for n in names if n in ("staticmethod", "classmethod",
                                            "property", "abstractmethod"))

  def walk(body, prefix):
    for node in body:
      if isinstance(node, (pyast.FunctionDef, pyast.AsyncFunctionDef)):
        out.setdefault(("func", prefix + node.name), []).append(
            (params_of(node), deco_names(node)))
      elif isinstance(node, pyast.ClassDef):
        out[("class", prefix + node.name)] = len(node.bases)
        walk(node.body, prefix + node.name + ".")
      elif isinstance(node, pyast.AnnAssign) and isinstance(node.target,
                                                            pyast.Name):
        out[("const", prefix + node.target.id)] = True
  walk(tree.body, "")
  return out


def shape_from_pytd(ast):
  boot.ensure()
  from pytype.pytd import pytd
  out = {}

  def kind_of(p):
    k = str(p.kind)
    return {"ParameterKind.POSONLY": "pos", "ParameterKind.REGULAR": "reg",
            "ParameterKind.KWONLY": "kw"}[k]

  def fn(f, prefix):
    sigs = []
    for sig in f.signatures:
      ps = [(p.name, kind_of(p), bool(p.optional)) for p in sig.params]
      # the printer emits *args before keyword-only parameters
      pos = [p for p in ps if p[1] != "kw"]
      kw = [p for p in ps if p[1] == "kw"]
      if sig.starargs:
        pos.append((sig.starargs.name, "star", False))
      ps = pos + kw
      if sig.starstarargs:
        ps.append((sig.starstarargs.name, "starstar", False))
      decos = []
      k = str(f.kind)
      if "STATICMETHOD" in k:
        decos.append("staticmethod")
      if "CLASSMETHOD" in k:
        decos.append("classmethod")
      if "PROPERTY" in k:
        decos.append("property")
      sigs.append((ps, decos))
    out[("func", prefix + f.name.split(".")[-1])] = sigs

  def cls(c, prefix):
    name = c.name.split(".")[-1]
    out[("class", prefix + name)] = None
    for m in c.methods:
      fn(m, prefix + name + ".")
    for k in c.constants:
      out[("const", prefix + name + "." + k.name.split(".")[-1])] = True
    for cc in c.classes:
      cls(cc, prefix + name + ".")

  for f in ast.functions:
    fn(f, "")
  for c in ast.classes:
    cls(c, "")
  for k in ast.constants:
    out[("const", k.name.split(".")[-1])] = True
  return out


IMPLICIT_DECOS = {"__new__": "staticmethod", "__init_subclass__": "classmethod",
                  "__class_getitem__": "classmethod"}


def compare_shapes(ctx, text, ast, label, case):
  """Declarations read by Python's ast from the text == declarations in the
  pytd AST (functions with parameter names / kinds / defaults / decorators,
  classes, constants)."""
  try:
    st = shape_from_text(text)
  except SyntaxError as e:
    raise Violation("stub-text-not-python-syntax", "%s: %s" % (label, e), case)
  sp = shape_from_pytd(ast)
  for path, sigs in st.items():
    if path[0] != "func":
      ctx.check(path in sp, "declaration-lost-in-reading",
                "%s: %s %s is in the text but not in the parsed AST" %
                (label, path[0], path[1]), case)
      continue
    if path not in sp:
      # properties are read back as constants
      if all("property" in d for _, d in sigs):
        continue
      ctx.check(False, "declaration-lost-in-reading",
                "%s: function %s is in the text but not in the parsed AST" %
                (label, path[1]), case)
      continue
    got = sp[path]
    name = path[1].split(".")[-1]
    want_params = sorted(repr(p) for p, _ in sigs)
    got_params = sorted(repr(p) for p, _ in got)
    ctx.check(want_params == got_params, "signature-shape-changed-in-reading",
              "%s: %s: text has parameter shapes %s, parsed AST has %s" %
              (label, path[1], want_params, got_params), case)
    wd = sorted({tuple(d) for _, d in sigs})
    gd = sorted({tuple(d) for _, d in got})
    if name in IMPLICIT_DECOS:
      continue   # implicitly static / class methods: decorator optional
    ctx.check(wd == gd, "method-kind-changed-in-reading",
              "%s: %s: text has decorators %s, parsed AST has %s" %
              (label, path[1], wd, gd), case)


FIXED_SRC = [
    # module imported under another name (recorded finding)
    """import collections as coll
import enum as en
class Color(en.Enum):
  RED = 1
counts = coll.defaultdict(int)
""",
    # classes whose only content is (empty) __slots__; generic class with a
    # nested class that has classmethods
    """class Marker:
  __slots__ = ()
class Pt:
  __slots__ = ("x", "y")
  def __init__(self):
    self.x = 1
    self.y = "s"
class Both:
  __slots__ = ()
  z = 1
m = Marker()
""",
    """from typing import Generic, TypeVar
T = TypeVar("T")
class Registry(Generic[T]):
  def __init__(self, item: T):
    self.item = item
  class Entry:
    def __init__(self, key: str):
      self.key = key
    @classmethod
    def parse(cls, text: str):
      return cls(text)
    @staticmethod
    def blank():
      return Registry.Entry("")
    def clone(self):
      return Registry.Entry(self.key)
  @classmethod
  def of(cls, item: T) -> "Registry[T]":
    return cls(item)
class Plain:
  class Entry:
    @classmethod
    def parse(cls, text: str):
      return cls()
r = Registry.of(1)
""",
    # a stub that refers to a nested class by its dotted name: printing it
    # calls Lookup on the enclosing class (fix d6f6e21: that used to make the
    # class unequal to its re-read twin)
    """class C:
  class N:
    z = 0
    def me(self):
      return self
n = C.N()
r = n.me()
""",
    # nested class named like a module-level class (fix 3694df8)
    """class Node:
  v = 1
class Outer:
  class Node:
    w = "s"
    def up(self):
      return Node()
    def me(self):
      return self
o = Outer.Node().up()
""",
]


def run(ctx, check_text):
  for i, src in enumerate(FIXED_SRC):
    if i % ctx.nshards == ctx.shard:
      replay(ctx, {"kind": "A", "src": src}, check_text)
  cfgs = [gen_py.Cfg.everything(annotations=0.3, n_stmts=(4, 12)),
          gen_py.Cfg(annotations=0.5, n_stmts=(5, 14))]

  for ci, cfg in enumerate(cfgs):
    def body(p):
      src = gen_py.render(p)
      case = {"kind": "A", "src": src}
      try:
        r = an.infer(src)
      except Exception as e:  # pylint: disable=broad-except
        # an analysis failure is C15's subject, not C05's
        ctx.event("A:analysis-raised:" + type(e).__name__)
        return
      T = r.pyi[:-1] if r.pyi.endswith("\n") else r.pyi
      check_text(ctx, T, "A", case, canonical=True, emitted_ast=r.ast)
      compare_shapes(ctx, T, r.ast, "A-emitted-ast-vs-text", case)

    n = 8 if ctx.quick() else 600
    hyp_run(ctx, gen_py.program(cfg), body, n, label="A%d" % ci)


def replay(ctx, case, check_text):
  src = case["src"]
  r = an.infer(src)
  T = r.pyi[:-1] if r.pyi.endswith("\n") else r.pyi
  check_text(ctx, T, "A", case, canonical=True, emitted_ast=r.ast)
  compare_shapes(ctx, T, r.ast, "A-emitted-ast-vs-text", case)
