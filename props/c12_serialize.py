"""C12 - serialised stubs decode to the same declarations, byte-stably;
equality and hashing of type nodes agree.

Round trip: b = Serialize(ast); d = DecodeAst(b);
  ASTeq(d.ast, CanonicalOrdering(ClearClassPointers(ast)));
  Encode(d) == b; Serialize(d.ast) == b.
Law: for all pairs of generated type nodes  a == b  =>  hash(a) == hash(b),
  a == b <=> b == a, a == a, len({a, b}) == 1.
"""

import itertools

from vlib import boot, gen_pyi, pt
from vlib.run import Violation, hyp_run

ID = "C12"
RULE = (
    "case = one stub AST (generated in the emitted dialect and resolved by the "
    "real loader, or parsed unresolved, or a bundled pytype stub, or the AST "
    "emitted for a generated program) pushed through Serialize -> DecodeAst -> "
    "Encode / Serialize; or one ordered pair of type nodes for the eq/hash "
    "law. Non-trivial AST = contains a union inside a generic, or a "
    "Literal/Annotated/Callable/tuple node, or >= 2 classes; non-trivial pair "
    "= equal but not identical nodes. distinct = distinct stub text / distinct "
    "pair of printed nodes with member order.")
ASSUMPTIONS = [
    "SerializeAst clears class pointers of its input in place, so every AST "
    "is parsed afresh for each use (the loader's shared ASTs are never "
    "serialised)",
    "structural comparison uses pytd_utils.ASTeq after the same "
    "ClearClassPointers + CanonicalOrderingVisitor normalisation that "
    "SerializeAst itself documents",
]


def _mods():
  boot.ensure()
  from pytype.imports import pickle_utils
  from pytype.pytd import pytd, pytd_utils, serialize_ast, visitors
  return pickle_utils, pytd, pytd_utils, serialize_ast, visitors


def nontrivial_text(text):
  return (text.count("class ") >= 2 or any(
      k in text for k in ("Literal[", "Annotated[", "Callable[", "tuple[")) or
          "[Union[" in text or "[Optional[" in text)


UNORDERED = {
    "TypeDeclUnit": {"constants", "type_params", "functions", "classes",
                     "aliases"},
    "Class": {"methods", "constants", "decorators", "classes", "slots"},
    "Signature": {"template", "exceptions"},
    "UnionType": {"type_list"},
    "IntersectionType": {"type_list"},
}


def nf(x):
  """Order-insensitive normal form of a pytd tree, independent of pytype's
  own CanonicalOrderingVisitor / ASTeq (class pointers are ignored)."""
  _, pytd, _, _, _ = _mods()
  if isinstance(x, pytd.ClassType):
    return ("ClassType", x.name)
  if hasattr(x, "__struct_fields__"):
    cn = type(x).__name__
    un = UNORDERED.get(cn, ())
    items = []
    for f in x.__struct_fields__:
      if f.startswith("_"):
        continue   # lookup caches, not declarations
      v = getattr(x, f)
      if f in un and isinstance(v, (tuple, list)):
        elems = [nf(e) for e in v]
        items.append((f, tuple(sorted(elems, key=repr))))
      else:
        items.append((f, nf(v)))
    return (cn, tuple(items))
  if isinstance(x, (tuple, list)):
    return tuple(nf(e) for e in x)
  if isinstance(x, dict):
    return tuple(sorted((repr(k), nf(v)) for k, v in x.items()))
  if isinstance(x, (str, int, float, bool, bytes)) or x is None:
    return x
  return repr(x)


def roundtrip(ctx, make_ast, label, text_key, case, nontrivial,
              make_ref=None, compare_decl=True):
  """make_ast() must return a *fresh* AST each time it is called.  make_ref,
  if given, builds the declarations the decoded AST must equal (used when
  serialisation renames the module: package __init__ stubs)."""
  pickle_utils, _, pytd_utils, _, visitors = _mods()
  make_ref = make_ref or make_ast
  ast = make_ast()
  try:
    b = pickle_utils.Serialize(ast)
    d = pickle_utils.DecodeAst(b)
  except Exception as e:  # pylint: disable=broad-except
    raise Violation("serialize-or-decode-raises:%s" % type(e).__name__,
                    "%s: %r" % (label, e), case)
  ref = make_ref()
  ref.Visit(visitors.ClearClassPointers())
  ref = ref.Visit(visitors.CanonicalOrderingVisitor())
  dast = d.ast
  # eq/hash law across the three trees alive after a serialisation: the
  # serialised original (SerializeAst works on it in place), its decoded twin
  # and the reference
  seen = {}
  for tree in (ast, dast, ref):
    per_tree = {}
    for t in collect_types(tree):
      if not isinstance(t, (_mods()[1].NamedType, _mods()[1].ClassType)):
        per_tree.setdefault(pt.Print(t) + type(t).__name__, t)
    for k, t in list(per_tree.items())[:6]:
      seen.setdefault((id(tree), k), t)
  law_pairs(ctx, list(seen.values()), dict(case, law="after-serialize:" + label))
  ctx.case(key=text_key, nontrivial=nontrivial,
           sample=(label + ": " + text_key[:400]) if nontrivial else None,
           classes=["roundtrip:" + label])
  # (compare_decl=False: the stub spells other modules by import aliases,
  # which serialisation replaces by the real names on purpose)
  ctx.check(not compare_decl or pytd_utils.ASTeq(dast, ref),
            "decoded-ast-differs",
            "%s: decoded AST != canonical original\n%s" % (
                label, pytd_utils.ASTdiff(dast, ref)[:600]
                if hasattr(pytd_utils, "ASTdiff") else ""), case)
  ctx.check(not compare_decl or nf(dast) == nf(make_ref()),
            "decoded-declarations-differ",
            "%s: decoded declarations differ from the original ones under an "
            "order-insensitive structural comparison" % label, case)
  ctx.check(pickle_utils.Encode(d) == b, "re-encode-not-byte-stable",
            "%s: Encode(DecodeAst(b)) != b" % label, case)
  b3 = pickle_utils.Serialize(dast)
  ctx.check(b3 == b, "re-serialize-not-byte-stable",
            "%s: Serialize(decoded.ast) != b" % label, case)
  # decoding is a pure function of the bytes: after a decoded AST has been
  # linked in place (what a loader does with it), decoding the same bytes
  # again still gives an unlinked AST that encodes to the same bytes
  try:
    d2 = pickle_utils.DecodeAst(b)
    d2.ast.Visit(visitors.FillInLocalPointers({"": d2.ast,
                                               d2.ast.name: d2.ast}))
    d3 = pickle_utils.DecodeAst(b)
    again = pickle_utils.Encode(d3)
  except RecursionError:
    again = None
  ctx.check(again == b, "decode-depends-on-earlier-decodes",
            "%s: after linking a decoded AST in place, DecodeAst of the same "
            "bytes no longer encodes to them" % label, case)
  # a second, independent serialisation of a fresh equal AST gives the bytes
  b4 = pickle_utils.Serialize(make_ast())
  ctx.check(b4 == b, "serialize-not-deterministic",
            "%s: two serialisations of the same stub differ" % label, case)


# ---------------------------------------------------------------- type pool


def collect_types(ast):
  """All type nodes appearing in constants/signatures of an AST."""
  _, pytd, _, _, visitors = _mods()
  out = []

  class V(visitors.Visitor):

    def _add(self, t):
      out.append(t)

    def EnterUnionType(self, t):
      out.append(t)

    def EnterGenericType(self, t):
      out.append(t)

    def EnterCallableType(self, t):
      out.append(t)

    def EnterTupleType(self, t):
      out.append(t)

    def EnterNamedType(self, t):
      out.append(t)

    def EnterClassType(self, t):
      out.append(t)

    def EnterLiteral(self, t):
      out.append(t)

    def EnterAnnotated(self, t):
      out.append(t)

  ast.Visit(V())
  return out


def permutations_of(t, limit=4):
  """Variants of t with union members permuted at every level."""
  _, pytd, _, _, visitors = _mods()
  out = []
  if isinstance(t, pytd.UnionType) and len(t.type_list) >= 2:
    ms = t.type_list
    out.append(pytd.UnionType(tuple(reversed(ms))))
    out.append(pytd.UnionType(ms[1:] + ms[:1]))
    if len(ms) >= 3:
      out.append(pytd.UnionType((ms[0],) + tuple(reversed(ms[1:]))))
  elif isinstance(t, (pytd.GenericType, pytd.TupleType, pytd.CallableType)):
    # permute inside parameters
    for i, p in enumerate(t.parameters):
      for q in permutations_of(p, 1)[:1]:
        ps = list(t.parameters)
        ps[i] = q
        out.append(t.Replace(parameters=tuple(ps)))
  return out[:limit]


def law_pairs(ctx, pool, case_base):
  _, pytd, pytd_utils, _, _ = _mods()
  n_eq_nonident = 0
  for a, b in itertools.product(pool, repeat=2):
    try:
      eq = (a == b)
      eq_r = (b == a)
    except Exception as e:  # pylint: disable=broad-except
      raise Violation("eq-raises", "%r == %r: %r" % (a, b, e), case_base)
    nontriv = eq and a is not b
    pa, pb = pytd_utils.Print(a), pytd_utils.Print(b)
    ctx.case(key=("law", pa, pb), nontrivial=nontriv,
             sample=("%s == %s" % (pa, pb)) if nontriv and pa != pb else None,
             classes=["law:pair"] + (["law:equal-not-identical"] * nontriv))
    case = dict(case_base, a=pa, b=pb)
    ctx.check(eq == eq_r, "eq-not-symmetric", "%s vs %s" % (pa, pb), case)
    if eq:
      ctx.check(hash(a) == hash(b), "equal-nodes-hash-differently",
                "%s == %s but hashes differ" % (pa, pb), case)
      ctx.check(len({a, b}) == 1, "set-keeps-two-equal-nodes",
                "len({%s, %s}) == 2" % (pa, pb), case)
      if a != b:
        # `!=` disagreeing with `==` (msgspec's inherited __ne__ compares the
        # ordered tuple) is outside what the property states (eq vs hash); it
        # is counted, not reported.
        ctx.event("note:eq-and-ne-both-true")
    if a is b:
      ctx.check(eq, "eq-not-reflexive", pa, case)


# ---------------------------------------------------------------- parts


def part_generated(ctx, n):
  def body(text):
    case = {"kind": "stub", "text": text}
    nt = nontrivial_text(text)

    def fresh_resolved():
      return pt.load_resolved(text, "m")[0]

    def fresh_unresolved():
      return pt.parse(text, "m")

    roundtrip(ctx, fresh_resolved, "resolved", text, case, nt)
    roundtrip(ctx, fresh_unresolved, "unresolved", "U:" + text, case, nt)
    # the same stub as a package's __init__: serialisation renames the module
    roundtrip(ctx, lambda: pt.load_resolved(text, "pkg.__init__")[0],
              "resolved-package-init", "RP:" + text, case, nt,
              make_ref=lambda: pt.load_resolved(text, "pkg")[0])
    roundtrip(ctx, lambda: pt.parse(text, "pkg.__init__"),
              "unresolved-package-init", "UP:" + text, case, nt,
              make_ref=lambda: pt.parse(text, "pkg"))
    # eq/hash law on the type nodes of this stub and their permutations
    ast = fresh_unresolved()
    types = collect_types(ast)
    seen = {}
    for t in types:
      seen.setdefault(pt.Print(t) + type(t).__name__, t)
    pool = list(seen.values())[:14]
    extra = []
    for t in pool:
      extra += permutations_of(t)
    # a structurally equal but distinct copy of each node
    ast2 = fresh_unresolved()
    copies = {}
    for t in collect_types(ast2):
      copies.setdefault(pt.Print(t) + type(t).__name__, t)
    _, pytd, _, _, _ = _mods()
    singles = [pytd.UnionType((t,)) for t in pool[:5]]
    resolved = []
    seen_r = {}
    for t in collect_types(fresh_resolved()):
      seen_r.setdefault(pt.Print(t) + type(t).__name__, t)
    resolved = list(seen_r.values())[:8]     # ClassType flavours of the same
    pool = pool + extra[:12] + list(copies.values())[:8] + singles + resolved
    law_pairs(ctx, pool, {"kind": "law", "text": text})

  hyp_run(ctx, gen_pyi.stub(), body, n, label="gen")


ALIAS_TEXTS = [
    # module aliases in annotations (names under foo.bar cannot be resolved
    # here: unresolved route)
    ("alias", """import foo.bar as fb
import foo.bar.sub as fbs
from typing import List, Union
x: fb.Thing
w: Union[fb.Thing, fbs.Other, int]
def f(a: List[fb.sub.Other]) -> fb.Thing: ...
class C(fb.Base):
    y: fb.Thing
    def m(self, a: fbs.Other) -> List[fb.Thing]: ...
"""),
    # the alias of the previous stub is a real top-level module name here
    ("after-alias", """from fb import Thing
import fb.sub
import fbs.deep
from typing import List
y: Thing
z: fb.sub.Q
v: List[fbs.deep.Leaf]
def g(a: List[fb.sub.Q]) -> Thing: ...
"""),
    ("after-alias-2", """from fbs import Other
u: Other
"""),
    ("alias-again", """import foo.bar as fb
x2: fb.Thing
"""),
]


def part_aliases(ctx):
  """Stubs with module aliases, serialised one after the other in one process
  (the second uses the first one's alias as a real module name)."""
  for order in ([0, 1, 2, 3], [1, 2, 0, 1, 2]):
    for k in order:
      tag, text = ALIAS_TEXTS[k]
      case = {"kind": "alias-sequence", "order": order, "text": text}
      roundtrip(ctx, lambda text=text: pt.parse(text, "m"),
                "unresolved:" + tag, "U:%s:%s" % (order, text), case, True)
      # the export dialect: classes of other modules become late types,
      # which is where module aliases are undone
      from pytype.pytd import serialize_ast

      def exportable(text=text, name="m"):
        return serialize_ast.SourceToExportableAst(name, text, pt.new_loader())

      roundtrip(ctx, exportable, "exportable:" + tag,
                "X:%s:%s" % (order, text), case, True,
                compare_decl=" as " not in text)
      roundtrip(ctx, lambda text=text: pt.parse(text, "pkg.sub.__init__"),
                "unresolved-package-init:" + tag,
                "UP:%s:%s" % (order, text), case, True,
                make_ref=lambda text=text: pt.parse(text, "pkg.sub"))


def part_bundled(ctx):
  files = pt.bundled_stub_files()
  for i, (mod, path) in enumerate(files):
    if i % ctx.nshards != ctx.shard:
      continue
    with open(path) as f:
      text = f.read()
    case = {"kind": "bundled", "module": mod, "path": path}
    try:
      pt.parse(text, mod)
    except Exception as e:  # pylint: disable=broad-except
      ctx.event("bundled-not-parseable-standalone:" + mod)
      continue
    roundtrip(ctx, lambda: pt.parse(text, mod), "bundled:" + mod,
              "bundled:" + mod, case, True)


def part_fixed_law(ctx):
  """Hand-built corner cases of the eq/hash law (always in the quick tier)."""
  _, pytd, _, _, _ = _mods()
  i, s, f = (pytd.NamedType("int"), pytd.NamedType("str"),
             pytd.NamedType("float"))
  pool = [
      pytd.UnionType((i, s)), pytd.UnionType((s, i)),
      pytd.UnionType((i, s, f)), pytd.UnionType((f, i, s)),
      pytd.UnionType((pytd.UnionType((i, s)), f)),
      pytd.GenericType(pytd.NamedType("list"), (pytd.UnionType((i, s)),)),
      pytd.GenericType(pytd.NamedType("list"), (pytd.UnionType((s, i)),)),
      pytd.IntersectionType((i, s)), pytd.IntersectionType((s, i)),
      pytd.TupleType(pytd.NamedType("tuple"),
                     (pytd.UnionType((i, s)), pytd.UnionType((s, i)))),
      pytd.TupleType(pytd.NamedType("tuple"),
                     (pytd.UnionType((s, i)), pytd.UnionType((i, s)))),
      i, pytd.NamedType("int"), pytd.ClassType("int"), pytd.AnythingType(),
      pytd.NothingType(),
      # single-member unions (they arise from flattening / de-duplication)
      pytd.UnionType((i,)), pytd.UnionType((i, i)), pytd.UnionType((s,)),
      pytd.IntersectionType((i,)),
      pytd.GenericType(pytd.NamedType("list"), (pytd.UnionType((s,)),)),
      pytd.GenericType(pytd.NamedType("list"), (s,)),
      pytd.GenericType(pytd.NamedType("list"), (i,)),
      pytd.GenericType(pytd.ClassType("list"), (i,)),
      pytd.Literal(1), pytd.Literal(True), pytd.Literal("1"),
      pytd.TupleType(pytd.NamedType("tuple"), (i,)),
      pytd.GenericType(pytd.NamedType("tuple"), (i,)),
  ]
  law_pairs(ctx, pool, {"kind": "law-fixed"})


def run_shard(ctx):
  boot.ensure()
  if ctx.shard == 0:
    part_fixed_law(ctx)
  if ctx.shard == 1 % ctx.nshards:
    part_aliases(ctx)
  part_bundled(ctx)
  part_generated(ctx, 25 if ctx.quick() else 1500)
  try:
    from props import progs_c12
  except ImportError:
    progs_c12 = None
  if progs_c12:
    progs_c12.run(ctx, roundtrip)


def replay(ctx, case):
  if case.get("kind") == "alias-sequence":
    part_aliases(ctx)
    return
  if case.get("kind") in ("stub", "law"):
    text = case["text"]
    roundtrip(ctx, lambda: pt.load_resolved(text, "m")[0], "resolved", text,
              case, True)
    roundtrip(ctx, lambda: pt.parse(text, "m"), "unresolved", "U:" + text,
              case, True)
    ast = pt.parse(text, "m")
    types = collect_types(ast)
    pool = types[:20]
    extra = []
    for t in pool:
      extra += permutations_of(t)
    law_pairs(ctx, pool + extra, {"kind": "law", "text": text})
  elif case.get("kind") == "program":
    from pytype.pytd import serialize_ast
    from vlib import an
    r = an.infer(case["src"], module_name="m")
    roundtrip(ctx, lambda: serialize_ast.PrepareForExport(
        "m", r.ast, r.ret.context.loader), "program", "P:" + case["src"],
              case, True,
              compare_decl=not __import__("re").search(
                  r"^import [\w.]+ as \w+$", case["src"], 8))
  elif case.get("kind") == "law-fixed":
    part_fixed_law(ctx)
  elif case.get("kind") == "bundled":
    with open(case["path"]) as f:
      text = f.read()
    roundtrip(ctx, lambda: pt.parse(text, case["module"]), "bundled", text,
              case, True)
