"""C08 - solver answers do not depend on what was asked or built before.

Hypothesis rule-based state machine over one long-lived cfg.Program.  Every
mutation is logged as a replayable op; at every query the log is replayed
(mutations only) into a brand-new Program and the same query is asked there.
"""

from vlib import boot
from vlib.run import Violation, state_machine_run

ID = "C08"
RULE = (
    "case = one query (HasCombination / IsVisible / Filter / Bindings / "
    "CanHaveCombination / is_reachable) inside a generated history of "
    "mutations and queries on one long-lived Program, compared with the same "
    "query on a replica rebuilt from the mutation log, and immediately "
    "repeated. Non-trivial = the query follows >= 1 earlier solver query AND "
    ">= 1 mutation since that query (cache populated, then graph changed); "
    "classified by the kinds of the intervening mutations. distinct = "
    "distinct (mutation log, query).")
ASSUMPTIONS = [
    "histories use only the Python cfg API; source sets never make a binding "
    "its own (transitive) source, and a binding is never pasted into its own "
    "variable, as in pytype's own use of the API",
    "the replica is built by the same cfg code from the mutation log, so a "
    "defect that is independent of history is invisible here (that is C07)",
]

DATA = ["A", "B", "C"]

MUTATING = ["node", "cnew", "edge", "var", "bind", "bind0", "origin",
            "paste_b", "paste_v", "paste_new", "assign_v", "assign_b", "cond"]


class World:
  """A Program plus index-addressable nodes / variables / bindings."""

  def __init__(self):
    cfg = boot.cfg()
    self.p = cfg.Program()
    self.nodes = []
    self.vars = []
    self.binds = []
    self._bids = set()

  def _sync(self):
    for v in self.vars:
      for b in v.bindings:
        if b.id not in self._bids:
          self._bids.add(b.id)
          self.binds.append(b)

  def _where(self, w):
    return None if w is None else self.nodes[w]

  def apply(self, op):
    k = op[0]
    if k == "node":
      self.nodes.append(self.p.NewCFGNode("n%d" % len(self.nodes)))
    elif k == "cnew":
      self.nodes.append(self.nodes[op[1]].ConnectNew("n%d" % len(self.nodes)))
    elif k == "edge":
      self.nodes[op[1]].ConnectTo(self.nodes[op[2]])
    elif k == "var":
      self.vars.append(self.p.NewVariable())
    elif k == "bind":
      self.vars[op[1]].AddBinding(DATA[op[2]], [self.binds[i] for i in op[3]],
                                  self.nodes[op[4]])
    elif k == "bind0":
      self.vars[op[1]].AddBinding(DATA[op[2]])
    elif k == "origin":
      self.binds[op[1]].AddOrigin(self.nodes[op[2]],
                                  [self.binds[i] for i in op[3]])
    elif k == "paste_b":
      self.vars[op[1]].PasteBinding(self.binds[op[2]], self._where(op[3]),
                                    [self.binds[i] for i in op[4]])
    elif k == "paste_v":
      self.vars[op[1]].PasteVariable(self.vars[op[2]], self._where(op[3]),
                                     [self.binds[i] for i in op[4]])
    elif k == "paste_new":
      self.vars[op[1]].PasteBindingWithNewData(self.binds[op[2]], DATA[op[3]])
    elif k == "assign_v":
      self.vars.append(self.vars[op[1]].AssignToNewVariable(self._where(op[2])))
    elif k == "assign_b":
      self.vars.append(self.binds[op[1]].AssignToNewVariable(self._where(op[2])))
    elif k == "cond":
      self.nodes[op[1]].condition = (
          None if op[2] is None else self.binds[op[2]])
    else:
      raise ValueError(op)
    self._sync()

  def query(self, q):
    k = q[0]
    if k == "has":
      return self.nodes[q[1]].HasCombination([self.binds[i] for i in q[2]])
    if k == "can":
      return self.nodes[q[1]].CanHaveCombination([self.binds[i] for i in q[2]])
    if k == "vis":
      return self.binds[q[1]].IsVisible(self.nodes[q[2]])
    if k == "filter":
      return sorted(self.binds.index(b) for b in
                    self.vars[q[1]].Filter(self.nodes[q[2]], True))
    if k == "filter0":
      return sorted(self.binds.index(b) for b in
                    self.vars[q[1]].Filter(self.nodes[q[2]], False))
    if k == "bindings":
      return sorted(self.binds.index(b) for b in
                    self.vars[q[1]].Bindings(self.nodes[q[2]]))
    if k == "reach":
      return self.p.is_reachable(self.nodes[q[1]], self.nodes[q[2]])
    raise ValueError(q)


def world_class(w):
  """'cyclic'/'acyclic' (+conditions) from the live Program's own edges."""
  succ = {n.id: [m.id for m in n.outgoing] for n in w.nodes}
  state = {}

  def dfs(u):
    state[u] = 1
    for v in succ[u]:
      if state.get(v) == 1:
        return False
      if v not in state and not dfs(v):
        return False
    state[u] = 2
    return True

  acyclic = all(dfs(u) for u in list(succ) if u not in state)
  conds = any(n.condition is not None for n in w.nodes)
  return ("acyclic" if acyclic else "cyclic") + ("+conditions" if conds else "")


def replica_answer(log, q):
  w = World()
  for op in log:
    w.apply(op)
  return w.query(q)


def run_log(ops, ctx=None):
  """Replay a mixed list of mutations and queries; return first mismatch."""
  w = World()
  log = []
  seen = []
  for op in ops:
    op = tuple(op)
    seen.append(op)
    if op[0] in MUTATING:
      w.apply(op)
      log.append(op)
    else:
      got = w.query(op)
      again = w.query(op)
      want = replica_answer(log, op)
      if got != want:
        w2 = World()
        for m in log:
          w2.apply(m)
        tail = []
        for prev in reversed(seen[:-1]):
          if prev[0] in MUTATING:
            break
          tail.append(prev)
        tail.reverse()
        for prev in tail:
          w2.query(prev)
        if w2.query(op) != want:
          return ("order:" + world_class(w2), op, got, want)
        return ("stale", op, got, want)
      if again != got:
        return ("flip", op, got, again)
  return None


def make_machine(ctx):
  from hypothesis import strategies as st
  from hypothesis.stateful import (RuleBasedStateMachine, initialize,
                                   precondition, rule)

  I = st.integers(0, 10**6)
  srcs = st.lists(I, max_size=2)
  opt_where = st.one_of(st.none(), I)

  class Machine(RuleBasedStateMachine):
    _last_violation = None

    def __init__(self):
      super().__init__()
      self.w = World()
      self.log = []        # mutations only
      self.full = []       # mutations and queries, for the replay file
      self.queries_asked = 0
      self.muts_since_query = []
      self.pending = []    # earlier solver queries to re-ask later

    # ---- helpers
    def _mut(self, op):
      ctx.crumb({"ops": self.full + [list(op)]})
      self.w.apply(op)
      self.log.append(op)
      self.full.append(list(op))
      self.muts_since_query.append(op[0])

    def _n(self, i):
      return i % len(self.w.nodes)

    def _v(self, i):
      return i % len(self.w.vars)

    def _b(self, i):
      return i % len(self.w.binds)

    def _srcs_lt(self, raw, limit):
      """Source indices strictly below `limit` (keeps sources acyclic)."""
      if limit <= 0:
        return []
      return sorted({r % limit for r in raw})

    def _fail(self, sig, detail):
      v = Violation(sig, detail, {"ops": list(self.full)})
      type(self)._last_violation = v
      raise v

    def _ask(self, q, solver=True):
      self.full.append(list(q))
      ctx.crumb({"ops": self.full})
      got = self.w.query(q)
      again = self.w.query(q)
      want = replica_answer(self.log, q)
      kinds = sorted(set(self.muts_since_query))
      nontriv = solver and self.queries_asked > 0 and bool(kinds)
      ctx.case(key=(repr(self.log), q), nontrivial=nontriv,
               sample=("%d mutations, then %s; since previous query: %s" %
                       (len(self.log), list(q), kinds)
                       if nontriv and len(self.log) > 12 else None),
               classes=["query:" + q[0]] +
               (["after:" + k for k in kinds] if nontriv else []))
      if got != want:
        sig = "stale-answer-after:" + ("+".join(kinds) or "nothing")
        # Root-cause classification.  If the mismatch is reproduced by a
        # Program that first receives ALL mutations and only then the solver
        # queries asked since the last mutation, no mutation is involved: the
        # memo of an earlier *query* changed the answer (query-order
        # dependence).  Otherwise a mutation failed to invalidate.
        tail = []
        for op in reversed(self.full[:-1]):
          if op[0] in MUTATING:
            break
          tail.append(tuple(op))
        tail.reverse()
        w2 = World()
        for op in self.log:
          w2.apply(op)
        for op in tail:
          w2.query(op)
        if w2.query(q) != want:
          sig = "query-order-dependence:" + world_class(w2)
        if ctx.is_known(sig):
          ctx.known_hits[sig] += 1
          return
        self._fail(sig, "%s = %r on the long-lived Program, %r on a replica "
                   "rebuilt from the %d logged mutations" %
                   (list(q), got, want, len(self.log)))
      if again != got:
        self._fail("answer-flips-on-repeat",
                   "%s = %r then %r" % (list(q), got, again))
      if solver:
        self.queries_asked += 1
        self.muts_since_query = []
        self.pending.append(q)

    # ---- setup
    @initialize()
    def init(self):
      self._mut(("node",))
      self._mut(("cnew", 0))
      self._mut(("var",))
      self._mut(("bind", 0, 0, [], 0))

    # ---- mutations
    @rule()
    def new_node(self):
      self._mut(("node",))

    @rule(u=I)
    def connect_new(self, u):
      self._mut(("cnew", self._n(u)))

    @rule(u=I, v=I)
    def connect(self, u, v):
      self._mut(("edge", self._n(u), self._n(v)))

    @rule()
    def new_var(self):
      self._mut(("var",))

    @rule(v=I, d=st.integers(0, 2), s=srcs, w=I)
    def add_binding(self, v, d, s, w):
      v = self._v(v)
      existing = [b for b in self.w.vars[v].bindings if b.data is DATA[d]]
      src = self._srcs_lt(s, len(self.w.binds))
      if existing and any(self.w.binds[i].HasSource(existing[0]) for i in src):
        return   # would make the binding its own transitive source
      self._mut(("bind", v, d, src, self._n(w)))

    @rule(b=I, k=I, s=srcs)
    def add_binding_again(self, b, k, s):
      """Same data at a node where the binding already has an origin, with a
      further source set (what the VM does when a value is stored twice)."""
      b = self._b(b)
      bd = self.w.binds[b]
      wheres = [o.where for o in bd.origins]
      if not wheres or bd.data not in DATA:
        return
      where = wheres[k % len(wheres)]
      vi = [i for i, v in enumerate(self.w.vars) if v.id == bd.variable.id]
      ni = [i for i, n in enumerate(self.w.nodes) if n.id == where.id]
      if not vi or not ni:
        return
      src = self._srcs_lt(s, len(self.w.binds))
      if any(self.w.binds[i].HasSource(bd) or i == b for i in src):
        return
      self._mut(("bind", vi[0], DATA.index(bd.data), src, ni[0]))

    @rule(b=I, k=I, s=srcs)
    def add_origin_again(self, b, k, s):
      b = self._b(b)
      bd = self.w.binds[b]
      wheres = [o.where for o in bd.origins]
      if not wheres:
        return
      where = wheres[k % len(wheres)]
      ni = [i for i, n in enumerate(self.w.nodes) if n.id == where.id]
      src = self._srcs_lt(s, len(self.w.binds))
      if not ni or any(self.w.binds[i].HasSource(bd) or i == b for i in src):
        return
      self._mut(("origin", b, ni[0], src))

    @rule(v=I, d=st.integers(0, 2))
    def add_binding_no_origin(self, v, d):
      self._mut(("bind0", self._v(v), d))

    @rule(b=I, w=I, s=srcs)
    def add_origin(self, b, w, s):
      b = self._b(b)
      src = self._srcs_lt(s, len(self.w.binds))
      if any(self.w.binds[i].HasSource(self.w.binds[b]) for i in src):
        return   # would make the binding its own transitive source
      self._mut(("origin", b, self._n(w), src))

    def _paste_ok(self, target_var, src_binding, extra):
      """No self-paste and no source cycle through an existing binding."""
      tv = self.w.vars[target_var]
      sb = self.w.binds[src_binding]
      if sb.variable.id == tv.id:
        return False
      for b in tv.bindings:
        if b.data is sb.data:
          if sb.HasSource(b):
            return False
          if any(self.w.binds[i].HasSource(b) for i in extra):
            return False
      return True

    @rule(v=I, b=I, w=opt_where, s=srcs)
    def paste_binding(self, v, b, w, s):
      v, b = self._v(v), self._b(b)
      extra = sorted({self._b(x) for x in s})
      if not self._paste_ok(v, b, extra):
        return
      self._mut(("paste_b", v, b, None if w is None else self._n(w), extra))

    @rule(v=I, v2=I, w=opt_where, s=srcs)
    def paste_variable(self, v, v2, w, s):
      v, v2 = self._v(v), self._v(v2)
      extra = sorted({self._b(x) for x in s})
      if v == v2:
        return
      # conservative: no binding of the source variable (nor an extra source)
      # may already depend on any binding of the target variable, otherwise the
      # sequence of pastes could close a source cycle
      for sb in self.w.vars[v2].bindings:
        for tb in self.w.vars[v].bindings:
          if sb.HasSource(tb):
            return
      for i in extra:
        for tb in self.w.vars[v].bindings:
          if self.w.binds[i].HasSource(tb):
            return
      self._mut(("paste_v", v, v2, None if w is None else self._n(w), extra))

    @rule(v=I, b=I, d=st.integers(0, 2))
    def paste_with_new_data(self, v, b, d):
      v, b = self._v(v), self._b(b)
      tv = self.w.vars[v]
      sb = self.w.binds[b]
      for x in tv.bindings:
        if x.data is DATA[d] and (sb.HasSource(x) or x.id == sb.id):
          return
      self._mut(("paste_new", v, b, d))

    @rule(v=I, w=opt_where)
    def assign_var(self, v, w):
      self._mut(("assign_v", self._v(v), None if w is None else self._n(w)))

    @rule(b=I, w=opt_where)
    def assign_binding(self, b, w):
      self._mut(("assign_b", self._b(b), None if w is None else self._n(w)))

    @rule(n=I, b=st.one_of(st.none(), I))
    def set_condition(self, n, b):
      self._mut(("cond", self._n(n), None if b is None else self._b(b)))

    # ---- queries
    @rule(n=I, bs=st.lists(I, min_size=1, max_size=3))
    def q_has(self, n, bs):
      self._ask(("has", self._n(n), sorted({self._b(b) for b in bs})))

    @rule(b=I, n=I)
    def q_visible(self, b, n):
      self._ask(("vis", self._b(b), self._n(n)))

    @rule(v=I, n=I)
    def q_filter(self, v, n):
      self._ask(("filter", self._v(v), self._n(n)))

    @rule(v=I, n=I)
    def q_filter_lenient(self, v, n):
      self._ask(("filter0", self._v(v), self._n(n)))

    @rule(v=I, n=I)
    def q_bindings(self, v, n):
      self._ask(("bindings", self._v(v), self._n(n)), solver=False)

    @rule(n=I, bs=st.lists(I, min_size=1, max_size=3))
    def q_can(self, n, bs):
      self._ask(("can", self._n(n), sorted({self._b(b) for b in bs})),
                solver=False)

    @rule(a=I, b=I)
    def q_reach(self, a, b):
      self._ask(("reach", self._n(a), self._n(b)), solver=False)

    @precondition(lambda self: len(self.pending) >= 2)
    @rule(i=I)
    def q_reask_old(self, i):
      q = self.pending[i % len(self.pending)]
      self._ask(q)

  return Machine


def query_order_search(ctx, n_examples):
  """Build a (mostly cyclic) graph completely, then ask a generated sequence
  of solver queries on it; each answer must equal the answer of a Program
  that is asked only that query."""
  from hypothesis import strategies as st
  from props import c07_solver
  from vlib import tg
  from vlib.run import hyp_run

  @st.composite
  def cases(draw):
    spec, _ = draw(c07_solver.spec_strategy(
        draw(st.sampled_from(["cyclic", "cyclic", "cond"]))))
    if draw(st.booleans()):
      spec.pop("conds", None)
    nb = len(spec["bindings"])
    qs = draw(st.lists(st.tuples(
        st.integers(0, spec["n"] - 1),
        st.lists(st.integers(0, nb - 1), min_size=1, max_size=2,
                 unique=True).map(sorted)), min_size=2, max_size=25))
    return spec, qs

  def body(x):
    spec, qs = x
    prog, nodes, _, binds = tg.build(spec)
    cls = c07_solver.graph_class(spec)
    for k, (n, S) in enumerate(qs):
      live = nodes[n].HasCombination([binds[i] for i in S])
      want = c07_solver.ask_fresh(spec, n, S)
      ctx.case(key=(c07_solver.tg_key(spec), tuple(map(repr, qs[:k + 1]))),
               nontrivial=k > 0,
               sample=("%s | after %d earlier queries: n%d %s" % (
                   c07_solver.fmt_spec(spec), k, n, S) if k > 3 else None),
               classes=["Q:" + cls])
      ctx.check(live == want, "query-order-dependence:" + cls,
                "after %s, HasCombination(%s) at n%d = %s; alone it is %s" %
                (qs[:k], S, n, live, want),
                {"spec": spec, "queries": [list(q) for q in qs[:k + 1]]})
    del prog

  hyp_run(ctx, cases(), body, n_examples, label="Q")


def query_order_exhaustive(ctx, n, chain_only):
  """All digraphs on n nodes (optionally only those containing the chain
  0->1->..->n-1) x all placements of three source-free bindings (two of one
  variable, one of another): all singleton queries asked in two orders on a
  long-lived Program and compared with single-query Programs."""
  import itertools
  from props import c07_solver
  from vlib import tg
  pairs = [(a, b) for a in range(n) for b in range(n) if a != b]
  chain = {(i, i + 1) for i in range(n - 1)}
  free = [p for p in pairs if not (chain_only and p in chain)]
  idx = 0
  for mask in range(1 << len(free)):
    edges = [list(p) for p in sorted(chain)] if chain_only else []
    edges += [list(free[i]) for i in range(len(free)) if mask >> i & 1]
    for w0, w1, w2 in itertools.product(range(n), repeat=3):
      if w0 >= w1:
        continue
      idx += 1
      if idx % ctx.nshards != ctx.shard:
        continue
      spec = {"n": n, "edges": edges, "nv": 2,
              "bindings": [[0, [[w0, [[]]]]], [0, [[w1, [[]]]]],
                           [1, [[w2, [[]]]]]]}
      cls = c07_solver.graph_class(spec)
      qs = [(node, (b,)) for node in range(n) for b in range(3)]
      want = {q: c07_solver.ask_fresh(spec, q[0], q[1]) for q in qs}
      for order_name, order in (("fwd", qs), ("rev", qs[::-1])):
        prog, nodes, _, binds = tg.build(spec)
        for k, (node, S) in enumerate(order):
          live = nodes[node].HasCombination([binds[i] for i in S])
          ctx.case(key=("X", n, mask, w0, w1, w2, order_name, k),
                   nontrivial=k > 0 and cls.startswith("cyclic"),
                   sample=("%s | %s order, query %d: n%d b%d" % (
                       c07_solver.fmt_spec(spec), order_name, k, node, S[0])
                           if idx % 9973 == ctx.shard and k == 5 else None),
                   classes=["X:" + cls])
          ctx.check(live == want[(node, S)], "query-order-dependence:" + cls,
                    "after %s, HasCombination(%s) at n%d = %s; alone it is %s"
                    % (order[:k], S, node, live, want[(node, S)]),
                    {"spec": spec,
                     "queries": [[q[0], list(q[1])] for q in order[:k + 1]]})
        del prog


def cond_history_exhaustive(ctx, n, chain_only, stride=1):
  """All digraphs on n nodes x placements of three source-free bindings (two
  of one variable, one of another) x every (node, binding) condition.  One
  long-lived Program goes through the history
      all queries; node.condition = b; all queries (both orders);
      node.condition = None; all queries
  and every answer is compared with a Program built from scratch in the
  state of that moment and asked only that query."""
  import itertools
  from props import c07_solver
  from vlib import tg
  pairs = [(a, b) for a in range(n) for b in range(n) if a != b]
  chain = {(i, i + 1) for i in range(n - 1)}
  free = [p for p in pairs if not (chain_only and p in chain)]
  sets_ = [(0,), (1,), (2,), (0, 2), (1, 2), (0, 1)]
  qs = [(node, S) for node in range(n) for S in sets_]
  idx = 0
  for mask in range(1 << len(free)):
    edges = [list(p) for p in sorted(chain)] if chain_only else []
    edges += [list(free[i]) for i in range(len(free)) if mask >> i & 1]
    for w0, w1, w2 in itertools.product(range(n), repeat=3):
      if w0 >= w1:
        continue
      base = {"n": n, "edges": edges, "nv": 2,
              "bindings": [[0, [[w0, [[]]]]], [0, [[w1, [[]]]]],
                           [1, [[w2, [[]]]]]]}
      want0 = None
      for c, k in itertools.product(range(n), range(3)):
        idx += 1
        if idx % (ctx.nshards * stride) != ctx.shard * stride:
          continue
        with_c = dict(base, conds={c: k})
        cls = c07_solver.graph_class(with_c)
        if want0 is None:
          want0 = {q: c07_solver.ask_fresh(base, q[0], q[1]) for q in qs}
        want1 = {q: c07_solver.ask_fresh(with_c, q[0], q[1]) for q in qs}
        for order_name, order in (("fwd", qs), ("rev", qs[::-1])):
          prog, nodes, _, binds = tg.build(base)
          hist = []
          phases = (("before", want0, None), ("set", want1, k),
                    ("cleared", want0, None))
          for phase, want, cond in phases:
            if phase != "before":
              nodes[c].condition = None if cond is None else binds[cond]
              hist.append(["cond", c, cond])
            for node, S in order:
              live = nodes[node].HasCombination([binds[i] for i in S])
              hist.append(["has", node, list(S)])
              ctx.case(key=("CH", n, mask, w0, w1, w2, c, k, order_name,
                            len(hist)),
                       nontrivial=phase != "before",
                       sample=("%s | n%d.condition=b%d, %s order, phase %s: "
                               "n%d %s" % (c07_solver.fmt_spec(base), c, k,
                                           order_name, phase, node, list(S))
                               if idx % 4999 == 0 and node == n - 1 and
                               phase == "set" and S == (0, 2) else None),
                       classes=["CH:" + cls, "CH-phase:" + phase])
              if live != want[(node, S)]:
                ctx.check(False, "stale-or-order-dependent-answer-around-"
                          "condition-change:" + cls,
                          "phase %s: HasCombination(%s) at n%d = %s on the "
                          "long-lived Program, %s on a fresh one; history %s"
                          % (phase, list(S), node, live, want[(node, S)],
                             hist[-12:]),
                          {"spec": base, "cond_history": hist})
          del prog


def source_history_exhaustive(ctx, n, stride=1):
  """All digraphs on n nodes; variable 0 has bindings b0@w0 and b1@w1,
  variable 1 has b2@w2 with one source set from {{}, {b0}, {b1}}.  History:
  all queries; b2 gets a further source set at w2 or at another node - through
  Variable.AddBinding(same data, ...) or Binding.AddOrigin(...); all queries.
  Each answer is compared with a Program built from scratch in that state."""
  import itertools
  from props import c07_solver
  from vlib import tg
  pairs = [(a, b) for a in range(n) for b in range(n) if a != b]
  sets_ = [(0,), (1,), (2,), (0, 2), (1, 2), (0, 1)]
  qs = [(node, S) for node in range(n) for S in sets_]
  srcs = [[], [0], [1]]
  idx = 0
  for mask in range(1 << len(pairs)):
    edges = [list(pairs[i]) for i in range(len(pairs)) if mask >> i & 1]
    for w0, w1, w2, s1 in itertools.product(range(n), range(n), range(n),
                                            range(3)):
      base = {"n": n, "edges": edges, "nv": 2,
              "bindings": [[0, [[w0, [[]]]]], [0, [[w1, [[]]]]],
                           [1, [[w2, [srcs[s1]]]]]]}
      want0 = None
      for w3, s2, api in itertools.product(range(n), range(3),
                                           ("AddBinding", "AddOrigin")):
        if s2 == s1 and w3 == w2:
          continue
        idx += 1
        if idx % (ctx.nshards * stride) != ctx.shard * stride:
          continue
        after = dict(base, late=[[2, w3, srcs[s2]]])
        cls = c07_solver.graph_class(base)
        if want0 is None:
          want0 = {q: c07_solver.ask_fresh(base, q[0], q[1]) for q in qs}
        want1 = {q: c07_solver.ask_fresh(after, q[0], q[1]) for q in qs}
        prog, nodes, vars_, binds = tg.build(base)
        hist = []
        for phase, want in (("before", want0), ("after", want1)):
          if phase == "after":
            ss = [binds[i] for i in srcs[s2]]
            if api == "AddBinding":
              b = vars_[1].AddBinding(binds[2].data, ss, nodes[w3])
              assert b.id == binds[2].id
            else:
              binds[2].AddOrigin(nodes[w3], ss)
            hist.append([api, 2, w3, srcs[s2]])
          for node, S in qs:
            live = nodes[node].HasCombination([binds[i] for i in S])
            hist.append(["has", node, list(S)])
            ctx.case(key=("SH", n, mask, w0, w1, w2, s1, w3, s2, api,
                          len(hist)),
                     nontrivial=phase == "after",
                     sample=("%s | then %s(b2, n%d, %s): n%d %s" % (
                         c07_solver.fmt_spec(base), api, w3, srcs[s2], node,
                         list(S)) if idx % 7919 == 0 and phase == "after" and
                             node == n - 1 and S == (1, 2) else None),
                     classes=["SH:" + cls, "SH-same-node:%s" % (w3 == w2),
                              "SH-api:" + api])
            if live != want[(node, S)]:
              ctx.check(False, "stale-answer-after-further-source-set:" + api,
                        "phase %s: HasCombination(%s) at n%d = %s on the "
                        "long-lived Program, %s on a fresh one; %s; history %s"
                        % (phase, list(S), node, live, want[(node, S)],
                           c07_solver.fmt_spec(base), hist[-8:]),
                        {"spec": base, "source_history": hist})
        del prog


def edge_history_exhaustive(ctx, n, stride=1):
  """All digraphs on n nodes x placements of three source-free bindings (two
  of one variable, one of another) x every absent edge (forward, back, self
  loops excluded).  History: all queries; ConnectTo(the edge); all queries.
  Each answer is compared with a Program built from scratch in that state."""
  import itertools
  from props import c07_solver
  from vlib import tg
  pairs = [(a, b) for a in range(n) for b in range(n) if a != b]
  sets_ = [(0,), (1,), (2,), (0, 2), (1, 2), (0, 1)]
  qs = [(node, S) for node in range(n) for S in sets_]
  idx = 0
  for mask in range(1 << len(pairs)):
    edges = [list(pairs[i]) for i in range(len(pairs)) if mask >> i & 1]
    absent = [pairs[i] for i in range(len(pairs)) if not mask >> i & 1]
    if not absent:
      continue
    for w0, w1, w2 in itertools.product(range(n), repeat=3):
      if w0 > w1:
        continue
      base = {"n": n, "edges": edges, "nv": 2,
              "bindings": [[0, [[w0, [[]]]]], [0, [[w1, [[]]]]],
                           [1, [[w2, [[]]]]]]}
      want0 = None
      for a, b in absent:
        idx += 1
        if idx % (ctx.nshards * stride) != ctx.shard * stride:
          continue
        after = dict(base, edges=edges + [[a, b]])
        closes_cycle = not tg.is_acyclic(after) and tg.is_acyclic(base)
        if want0 is None:
          want0 = {q: c07_solver.ask_fresh(base, q[0], q[1]) for q in qs}
        want1 = {q: c07_solver.ask_fresh(after, q[0], q[1]) for q in qs}
        prog, nodes, _, binds = tg.build(base)
        hist = []
        for phase, want in (("before", want0), ("after", want1)):
          if phase == "after":
            nodes[a].ConnectTo(nodes[b])
            hist.append(["edge", a, b])
          for node, S in qs:
            live = nodes[node].HasCombination([binds[i] for i in S])
            hist.append(["has", node, list(S)])
            ctx.case(key=("EH", n, mask, w0, w1, w2, a, b, len(hist)),
                     nontrivial=phase == "after",
                     sample=("%s | then n%d.ConnectTo(n%d)%s: n%d %s" % (
                         c07_solver.fmt_spec(base), a, b,
                         " (closes a cycle)" if closes_cycle else "", node,
                         list(S)) if idx % 6007 == 0 and phase == "after" and
                             node == 0 and S == (0, 2) else None),
                     classes=["EH:closes-cycle" if closes_cycle else
                              "EH:other-edge"])
            if live != want[(node, S)]:
              ctx.check(False, "stale-answer-after-new-edge:" + (
                  "closing-a-cycle" if closes_cycle else "other"),
                        "phase %s: HasCombination(%s) at n%d = %s on the "
                        "long-lived Program, %s on a fresh one; %s; history %s"
                        % (phase, list(S), node, live, want[(node, S)],
                           c07_solver.fmt_spec(base), hist[-8:]),
                        {"spec": base, "edge_history": hist})
        del prog


def cond_history_search(ctx, n_examples):
  """Random larger graphs (sources, several origins): a generated sequence of
  condition assignments / removals interleaved with queries."""
  from hypothesis import strategies as st
  from props import c07_solver
  from vlib import tg
  from vlib.run import hyp_run

  @st.composite
  def cases(draw):
    spec, _ = draw(c07_solver.spec_strategy(
        draw(st.sampled_from(["acyclic", "cond", "cyclic"]))))
    spec.pop("conds", None)
    nb = len(spec["bindings"])
    q = st.tuples(st.just("has"), st.integers(0, spec["n"] - 1),
                  st.lists(st.integers(0, nb - 1), min_size=1, max_size=2,
                           unique=True).map(sorted))
    m = st.tuples(st.just("cond"), st.integers(0, spec["n"] - 1),
                  st.one_of(st.none(), st.integers(0, nb - 1)))
    steps = draw(st.lists(st.one_of(q, q, q, m), min_size=4, max_size=30))
    return spec, steps

  def body(x):
    spec, steps = x
    prog, nodes, _, binds = tg.build(spec)
    cur = dict(spec, conds={})
    hist = []
    seen_cond = False
    for st_ in steps:
      hist.append(list(st_))
      if st_[0] == "cond":
        _, c, k = st_
        nodes[c].condition = None if k is None else binds[k]
        conds = dict(cur["conds"])
        if k is None:
          conds.pop(c, None)
        else:
          conds[c] = k
        cur = dict(cur, conds=conds)
        seen_cond = True
        continue
      _, node, S = st_
      live = nodes[node].HasCombination([binds[i] for i in S])
      want = c07_solver.ask_fresh(cur, node, S)
      cls = c07_solver.graph_class(cur)
      ctx.case(key=(c07_solver.tg_key(spec), repr(hist)), nontrivial=seen_cond,
               sample=("%s | %s" % (c07_solver.fmt_spec(spec), hist[-6:])
                       if seen_cond and len(hist) > 12 else None),
               classes=["CS:" + cls])
      ctx.check(live == want, "stale-or-order-dependent-answer-around-"
                "condition-change:" + cls,
                "HasCombination(%s) at n%d = %s on the long-lived Program, %s "
                "on a fresh one; history %s" % (S, node, live, want, hist[-12:]),
                {"spec": spec, "cond_history": hist})
    del prog

  hyp_run(ctx, cases(), body, n_examples, label="CS")


def run_shard(ctx):
  boot.ensure()
  cond_history_exhaustive(ctx, 3, chain_only=False)
  if ctx.quick():
    cond_history_exhaustive(ctx, 4, chain_only=True, stride=40)
  else:
    cond_history_exhaustive(ctx, 4, chain_only=True)
  cond_history_search(ctx, 150 if ctx.quick() else 6000)
  source_history_exhaustive(ctx, 3, stride=3 if ctx.quick() else 1)
  edge_history_exhaustive(ctx, 3, stride=2 if ctx.quick() else 1)
  query_order_exhaustive(ctx, 3, chain_only=False)
  query_order_exhaustive(ctx, 4, chain_only=True)
  if not ctx.quick():
    query_order_exhaustive(ctx, 4, chain_only=False)
  query_order_search(ctx, 400 if ctx.quick() else 8000)
  if ctx.quick():
    state_machine_run(ctx, make_machine(ctx), max_examples=150, step_count=50,
                      label="m")
  else:
    state_machine_run(ctx, make_machine(ctx), max_examples=5000,
                      step_count=80, label="m")


def check_ops(ops):
  r = run_log(ops)
  if r is None:
    return None
  kind, q, a, b = r
  return kind, "%s: %r vs %r" % (list(q), a, b)


def replay(ctx, case):
  ctx.case(key=repr(case), nontrivial=True)
  if "edge_history" in case:
    from props import c07_solver
    from vlib import tg
    spec = case["spec"]
    prog, nodes, _, binds = tg.build(spec)
    cur = dict(spec)
    for st_ in case["edge_history"]:
      if st_[0] == "edge":
        nodes[st_[1]].ConnectTo(nodes[st_[2]])
        cur = dict(cur, edges=list(cur["edges"]) + [[st_[1], st_[2]]])
        continue
      _, node, S = st_
      live = nodes[node].HasCombination([binds[i] for i in S])
      want = c07_solver.ask_fresh(cur, node, S)
      if live != want:
        raise Violation("stale-answer-after-new-edge",
                        "n%d %s: %s vs fresh %s" % (node, S, live, want), case)
    return
  if "source_history" in case:
    from props import c07_solver
    from vlib import tg
    spec = case["spec"]
    prog, nodes, vars_, binds = tg.build(spec)
    cur = dict(spec)
    for st_ in case["source_history"]:
      if st_[0] in ("AddBinding", "AddOrigin"):
        api, b, w, ss = st_
        srcb = [binds[i] for i in ss]
        if api == "AddBinding":
          vars_[spec["bindings"][b][0]].AddBinding(binds[b].data, srcb,
                                                  nodes[w])
        else:
          binds[b].AddOrigin(nodes[w], srcb)
        cur = dict(cur, late=list(cur.get("late") or []) + [[b, w, ss]])
        continue
      _, node, S = st_
      live = nodes[node].HasCombination([binds[i] for i in S])
      want = c07_solver.ask_fresh(cur, node, S)
      if live != want:
        raise Violation("stale-answer-after-further-source-set:" + api,
                        "n%d %s: %s vs fresh %s" % (node, S, live, want), case)
    return
  if "cond_history" in case:
    from props import c07_solver
    from vlib import tg
    spec = case["spec"]
    prog, nodes, _, binds = tg.build(spec)
    cur = dict(spec, conds=dict(spec.get("conds") or {}))
    for st_ in case["cond_history"]:
      if st_[0] == "cond":
        _, c, k = st_
        nodes[c].condition = None if k is None else binds[k]
        conds = dict(cur["conds"])
        if k is None:
          conds.pop(c, None)
        else:
          conds[c] = k
        cur = dict(cur, conds=conds)
        continue
      _, node, S = st_
      live = nodes[node].HasCombination([binds[i] for i in S])
      want = c07_solver.ask_fresh(cur, node, S)
      if live != want:
        raise Violation("stale-or-order-dependent-answer-around-condition-"
                        "change:" + c07_solver.graph_class(cur),
                        "n%d %s: %s vs fresh %s" % (node, S, live, want), case)
    return
  if "queries" in case:
    from props import c07_solver
    from vlib import tg
    spec = case["spec"]
    prog, nodes, _, binds = tg.build(spec)
    for n, S in case["queries"]:
      live = nodes[n].HasCombination([binds[i] for i in S])
      want = c07_solver.ask_fresh(spec, n, S)
      if live != want:
        raise Violation("query-order-dependence:" +
                        c07_solver.graph_class(spec),
                        "n%d %s: %s vs alone %s" % (n, S, live, want), case)
    return
  r = check_ops(case["ops"])
  if r:
    sig = {"stale": "stale-answer", "flip": "answer-flips-on-repeat"}.get(
        r[0], "query-order-dependence:" + r[0][6:])
    raise Violation(sig, r[1], case)


def confirm_known(entry):
  r = check_ops(entry["input"]["ops"])
  return bool(r) and ("query-order-dependence:" + r[0][6:] ==
                      entry["signature"])
