"""C11: pre-optimisation ASTs of generated programs (what io.generate_pyi
feeds to Optimize) and pytype's bundled stubs."""
from vlib import boot, gen_py
from vlib.run import hyp_run


def run(ctx, check_ast):
  boot.ensure()
  import logging
  logging.disable(logging.CRITICAL)
  from pytype import analyze, config, io
  cfg = gen_py.Cfg.everything(annotations=0.3, n_stmts=(4, 10))

  def body(p):
    if "nested-class-shadows-module-class" in p["features"]:
      # the comparison keys declarations by class name and member; classes of
      # the same name at different nesting levels cannot be told apart there
      # (a limit of this harness, not of Optimize)
      ctx.event("P:skipped-same-named-nested-classes")
      return
    src = gen_py.render(p)
    opts = config.Options.create("m.py", python_version=(3, 12))

    def make():
      ret = io._call(analyze.infer_types, src, opts, None)  # pylint: disable=protected-access
      return ret.ast, ret.context.loader

    try:
      make()
    except Exception as e:  # pylint: disable=broad-except
      ctx.event("P:analysis-raised:" + type(e).__name__)
      return
    from props import c11_optimize
    check_ast(ctx, make, "program", "P:" + src, {"kind": "program",
                                                 "src": src},
              settings=c11_optimize.SETTINGS[:2])

  hyp_run(ctx, gen_py.program(cfg), body, 5 if ctx.quick() else 400,
          label="P")
