"""C18 - flow conditions and block-state merging preserve meaning.

(a) exhaustive truth tables of And/Or/Not terms over atoms p q r;
    Variable.with_condition.
(b) breadth-first enumeration of every BlockState reachable through the
    public operations, all ordered pairs merged, compared under every
    valuation against the denotational union.
(c) Hypothesis rule-based state machine: long histories, every state carries
    an independently maintained model denotation.
"""

import dataclasses
import itertools

from vlib import boot
from vlib.run import Violation, state_machine_run

ID = "C18"
RULE = (
    "case = (a) one And/Or/Not constructor call or Variable.with_condition "
    "call checked on all 8 valuations of p,q,r; (b) one ordered pair of "
    "reachable block states merged, or one with_condition / merge_into(None) "
    "on a reachable state, checked on all valuations for every local name; "
    "(c) one step of a generated history checked against a model denotation. "
    "Non-trivial (a) = children contain a term and its negation, a double "
    "negation, TRUE/FALSE or duplicates; (b) = the two states' locals differ "
    "for >= 1 name and their block conditions are neither both TRUE nor "
    "equal; (c) = a merge or with_condition step on such states. distinct = "
    "distinct structural key of the operands.")
ASSUMPTIONS = [
    "block states are built only through BlockState({...}) with the default "
    "third argument, store_local, load_local, with_condition and merge_into, "
    "as every caller in pytype/rewrite does",
    "atomic conditions are frozen dataclass subclasses of Condition with a "
    "name (as the repository's own tests use)",
]


def _mods():
  boot.ensure()
  from pytype.rewrite.flow import conditions as C
  from pytype.rewrite.flow import state as S
  from pytype.rewrite.flow import variables as V
  return C, V, S


_ATOM_CLS = None


def atom_cls():
  global _ATOM_CLS
  if _ATOM_CLS is None:
    C, _, _ = _mods()

    @dataclasses.dataclass(frozen=True)
    class Atom(C.Condition):
      name: str

      def __repr__(self):
        return self.name

    _ATOM_CLS = Atom
  return _ATOM_CLS


class Sem:
  """Truth-table semantics over n atoms; masks over 2**n valuations."""

  def __init__(self, names):
    C, _, _ = _mods()
    self.C = C
    self.names = names
    A = atom_cls()
    self.atoms = [A(n) for n in names]
    self.n = 1 << len(names)
    self.full = (1 << self.n) - 1
    self.amask = {}
    for i, a in enumerate(self.atoms):
      m = 0
      for s in range(self.n):
        if (s >> i) & 1:
          m |= 1 << s
      self.amask[a.name] = m

  def ev(self, c):
    C = self.C
    if c is C.TRUE or type(c) is C._True:  # pylint: disable=protected-access
      return self.full
    if c is C.FALSE or type(c) is C._False:  # pylint: disable=protected-access
      return 0
    if isinstance(c, atom_cls()):
      return self.amask[c.name]
    if isinstance(c, C._Not):  # pylint: disable=protected-access
      return self.full & ~self.ev(c.condition)
    if isinstance(c, C._And):  # pylint: disable=protected-access
      m = self.full
      for x in c.conditions:
        m &= self.ev(x)
      return m
    if isinstance(c, C._Or):  # pylint: disable=protected-access
      m = 0
      for x in c.conditions:
        m |= self.ev(x)
      return m
    raise Violation("unknown-condition-class", repr(c), None)


# ------------------------------------------------------------------ (a)


def part_a(ctx, depth3_cap):
  C, V, _ = _mods()
  sem = Sem(["p", "q", "r"])
  level = [C.TRUE, C.FALSE] + sem.atoms + [C.Not(a) for a in sem.atoms]
  pool = {repr(t): t for t in level}
  idx = 0
  complete = True
  for depth in (1, 2, 3):
    terms = list(pool.values())
    new = {}
    # Not
    for t in terms:
      idx += 1
      r = C.Not(t)
      new.setdefault(repr(r), r)
      if idx % ctx.nshards != ctx.shard:
        continue
      ok = sem.ev(r) == (sem.full & ~sem.ev(t))
      ctx.case(key="Not(%r)" % (t,),
               nontrivial=isinstance(t, C._Not),  # pylint: disable=protected-access
               classes=["a:d%d:Not" % depth])
      ctx.check(ok, "Not-not-equivalent", "Not(%r) -> %r" % (t, r),
                {"part": "a", "op": "Not", "args": [repr(t)]})
    max_arity = 3 if depth == 1 else 2
    done = 0
    for opname, op in (("And", C.And), ("Or", C.Or)):
      for arity in range(0, max_arity + 1):
        if depth == 3 and arity == 2 and len(terms) ** 2 > depth3_cap:
          complete = False
        for combo in itertools.product(terms, repeat=arity):
          done += 1
          if depth == 3 and done > depth3_cap:
            break
          idx += 1
          mine = idx % ctx.nshards == ctx.shard
          if depth < 3 or mine:
            r = op(*combo)
          if depth < 3:
            new.setdefault(repr(r), r)
          if not mine:
            continue
          if opname == "And":
            exp = sem.full
            for c in combo:
              exp &= sem.ev(c)
          else:
            exp = 0
            for c in combo:
              exp |= sem.ev(c)
          nontriv = (
              any(c is C.TRUE or c is C.FALSE for c in combo) or
              len(set(combo)) < len(combo) or
              any(C.Not(c) in combo for c in combo) or
              any(isinstance(c, C._Not) and isinstance(c.condition, (C._And, C._Or))  # pylint: disable=protected-access
                  for c in combo))
          ctx.case(key="%s%r" % (opname, combo), nontrivial=nontriv,
                   sample=("%s(%s) -> %r" % (opname, ", ".join(map(repr, combo)), r)
                           if idx % 3001 == ctx.shard else None),
                   classes=["a:d%d:%s" % (depth, opname)])
          ctx.check(sem.ev(r) == exp, "%s-not-equivalent" % opname,
                    "%s%r -> %r" % (opname, combo, r),
                    {"part": "a", "op": opname,
                     "args": [repr(c) for c in combo]})
    for k, t in new.items():
      pool.setdefault(k, t)

  # Variable.with_condition: each binding's condition == old AND c
  conds = list(pool.values())[:40]
  vi = 0
  for c1, c2, c in itertools.product(conds, conds[:12], conds):
    vi += 1
    if vi % ctx.nshards != ctx.shard:
      continue
    var = V.Variable((V.Binding(1, c1), V.Binding(2, c2)))
    r = var.with_condition(c)
    ok = (len(r.bindings) == 2 and
          [b.value for b in r.bindings] == [1, 2] and
          sem.ev(r.bindings[0].condition) == sem.ev(c1) & sem.ev(c) and
          sem.ev(r.bindings[1].condition) == sem.ev(c2) & sem.ev(c) and
          r.name == var.name)
    ctx.case(key="wc%r" % ((c1, c2, c),),
             nontrivial=c is not C.TRUE and (c1 is not C.TRUE or
                                             c2 is not C.TRUE),
             classes=["a:Variable.with_condition"])
    ctx.check(ok, "Variable.with_condition-not-and",
              "%r.with_condition(%r) -> %r" % (var, c, r),
              {"part": "a", "op": "var_with_condition",
               "args": [repr(c1), repr(c2), repr(c)]})
  return complete


# ------------------------------------------------------------------ (b)


def den(sem, st):
  """name -> tuple(mask per value)  as dict name -> {value: mask}."""
  out = {}
  blk_mask = sem.ev(st._condition)  # pylint: disable=protected-access
  for n, var in st._locals.items():  # pylint: disable=protected-access
    blk = n in st._locals_with_block_condition  # pylint: disable=protected-access
    d = {}
    for b in var.bindings:
      m = sem.ev(b.condition)
      if blk:
        m &= blk_mask
      d[b.value] = d.get(b.value, 0) | m
    out[n] = d
  return out


def den_norm(d):
  """Drop values that are never possible and names with no possible value."""
  out = {}
  for n, vals in d.items():
    vv = {v: m for v, m in vals.items() if m}
    out[n] = vv
  return out


def den_eq(d1, d2):
  names = set(d1) | set(d2)
  for n in names:
    a = {v: m for v, m in d1.get(n, {}).items() if m}
    b = {v: m for v, m in d2.get(n, {}).items() if m}
    if a != b:
      return False
  return True


def den_union(d1, d2):
  out = {}
  for d in (d1, d2):
    for n, vals in d.items():
      o = out.setdefault(n, {})
      for v, m in vals.items():
        o[v] = o.get(v, 0) | m
  return out


def den_restrict(d, mask):
  return {n: {v: m & mask for v, m in vals.items()} for n, vals in d.items()}


def skey(st):
  return (tuple(sorted((n, v.bindings) for n, v in st._locals.items())),  # pylint: disable=protected-access
          st._condition,  # pylint: disable=protected-access
          frozenset(st._locals_with_block_condition))  # pylint: disable=protected-access


def invariant_ok(sem, st):
  """Explicit binding conditions imply the block condition."""
  blk = sem.ev(st._condition)  # pylint: disable=protected-access
  for n, var in st._locals.items():  # pylint: disable=protected-access
    if n not in st._locals_with_block_condition:  # pylint: disable=protected-access
      for b in var.bindings:
        if sem.ev(b.condition) & ~blk & sem.full:
          return False
  return True


def reachable_states(sem, names, values, conds, depth, merge_pool, cap):
  C, V, S = _mods()
  start = S.BlockState({})
  states = {skey(start): start}
  frontier = [start]
  for _ in range(depth):
    new = []
    pool = list(states.values())
    for st in frontier:
      succ = []
      for n in names:
        for v in values:
          s2 = st.merge_into(None)
          s2.store_local(n, V.Variable.from_value(v))
          succ.append(s2)
        for m in names:
          if m in st._locals:  # pylint: disable=protected-access
            s2 = st.merge_into(None)
            s2.store_local(n, s2.load_local(m))
            succ.append(s2)
      for c in conds:
        succ.append(st.with_condition(c))
      for other in pool[:merge_pool]:
        succ.append(st.merge_into(other))
        succ.append(other.merge_into(st))
      for s2 in succ:
        k = skey(s2)
        if k not in states:
          states[k] = s2
          new.append(s2)
          if len(states) >= cap:
            return list(states.values()), False
    frontier = new
  return list(states.values()), True


def check_merge(ctx, sem, a, b, tag):
  C, _, _ = _mods()
  ka, kb = skey(a), skey(b)
  da, db = den(sem, a), den(sem, b)
  before_a, before_b = ka, kb
  m = a.merge_into(b)
  dm = den(sem, m)
  want = den_union(da, db)
  ca, cb = a._condition, b._condition  # pylint: disable=protected-access
  locals_differ = any(
      da.get(n) != db.get(n) for n in set(da) | set(db))
  nontriv = (locals_differ and not (ca is C.TRUE and cb is C.TRUE) and
             ca != cb)
  case = {"part": "b", "op": "merge", "a": repr(a), "b": repr(b)}
  ctx.case(key=("m", repr(ka), repr(kb)), nontrivial=nontriv,
           sample=("%s.merge_into(%s) -> %s" % (a, b, m)
                   if (hash(repr(ka)) + hash(repr(kb))) % 4001 == 0 else None),
           classes=[tag + ":merge"])
  ctx.check(den_eq(dm, want), "merge-not-union",
            "%r.merge_into(%r) -> %r" % (a, b, m), case)
  ctx.check(sem.ev(m._condition) == sem.ev(ca) | sem.ev(cb),  # pylint: disable=protected-access
            "merge-condition-not-or", "%r.merge_into(%r) -> %r" % (a, b, m),
            case)
  if not invariant_ok(sem, m):
    ctx.event("note:explicit-condition-not-implying-block-condition")
  ctx.check(skey(a) == before_a and skey(b) == before_b,
            "merge-mutates-input", "%r / %r" % (a, b), case)
  _, V, _ = _mods()
  m.store_local("zz", V.Variable.from_value(99))
  m.store_local("x", V.Variable.from_value(98))
  ctx.check(skey(a) == before_a and skey(b) == before_b and
            den_eq(den(sem, a), da) and den_eq(den(sem, b), db),
            "merge-result-aliases-input",
            "store_local on %r.merge_into(%r) changed an input" % (a, b), case)


def check_with_condition(ctx, sem, st, c, tag):
  C, _, _ = _mods()
  d0 = den(sem, st)
  k0 = skey(st)
  r = st.with_condition(c)
  cm = sem.ev(c)
  want = den_restrict(d0, cm)
  case = {"part": "b", "op": "with_condition", "a": repr(st), "c": repr(c)}
  ctx.case(key=("w", repr(k0), repr(c)),
           nontrivial=bool(d0) and cm not in (0, sem.full),
           classes=[tag + ":with_condition"])
  ctx.check(den_eq(den(sem, r), want), "with_condition-not-restriction",
            "%r.with_condition(%r) -> %r" % (st, c, r), case)
  ctx.check(sem.ev(r._condition) == sem.ev(st._condition) & cm,  # pylint: disable=protected-access
            "with_condition-condition-not-and",
            "%r.with_condition(%r) -> %r" % (st, c, r), case)
  ctx.check(skey(st) == k0, "with_condition-mutates-input", repr(st), case)
  # the result must be an independent state: storing into it later (as the
  # frame does) must not change the state it was derived from
  _, V, _ = _mods()
  r.store_local("zz", V.Variable.from_value(99))
  r.store_local("x", V.Variable.from_value(98))
  ctx.check(skey(st) == k0 and den_eq(den(sem, st), d0),
            "with_condition-result-aliases-input",
            "%r.with_condition(%r): store_local on the result changed the "
            "original" % (st, c), case)
  if not invariant_ok(sem, r):
    ctx.event("note:explicit-condition-not-implying-block-condition")


def check_copy(ctx, sem, st, tag):
  _, V, _ = _mods()
  d0 = den(sem, st)
  k0 = skey(st)
  cp = st.merge_into(None)
  case = {"part": "b", "op": "copy", "a": repr(st)}
  ctx.case(key=("c", repr(k0)), nontrivial=bool(d0), classes=[tag + ":copy"])
  ctx.check(den_eq(den(sem, cp), d0), "merge_into(None)-not-identity",
            repr(st), case)
  cp.store_local("zz", V.Variable.from_value(99))
  cp.store_local("x", V.Variable.from_value(98))
  ctx.check(skey(st) == k0 and den_eq(den(sem, st), d0),
            "merge_into(None)-aliases-state", repr(st), case)


def part_b(ctx, depth, merge_pool, cap, pair_cap, names, values):
  C, _, _ = _mods()
  sem = Sem(["p", "q"])
  P, Q = sem.atoms
  conds = [P, Q, C.Not(P), C.Not(Q), C.And(P, Q), C.Or(P, C.Not(Q))]
  states, complete = reachable_states(sem, names, values, conds, depth,
                                      merge_pool, cap)
  for i, st in enumerate(states):
    if i % ctx.nshards != ctx.shard:
      continue
    if not invariant_ok(sem, st):
      # not a violation by itself (the property does not state it); the
      # denotational checks below decide.
      ctx.event("note:explicit-condition-not-implying-block-condition")
    check_copy(ctx, sem, st, "b")
    for c in conds + [C.TRUE, C.FALSE]:
      check_with_condition(ctx, sem, st, c, "b")
  n = len(states)
  total = n * n
  stride = max(1, total // pair_cap)
  if stride > 1:
    complete = False
  k = 0
  for idx in range(ctx.shard * stride, total, stride * ctx.nshards):
    a = states[idx // n]
    b = states[idx % n]
    check_merge(ctx, sem, a, b, "b")
    k += 1
  if ctx.shard == 0:
    ctx.extra["b_states"] = n
    ctx.extra["b_pairs_total"] = total
  return complete


# ------------------------------------------------------------------ (c)


def make_machine(ctx):
  from hypothesis import strategies as st
  from hypothesis.stateful import (Bundle, RuleBasedStateMachine, rule,
                                   initialize)
  C, V, S = _mods()
  sem = Sem(["p", "q", "r"])
  P, Q, R = sem.atoms
  conds = [P, Q, R, C.Not(P), C.Not(Q), C.Not(R), C.And(P, Q), C.Or(P, R),
           C.And(C.Not(P), R), C.Or(Q, C.Not(R)), C.TRUE, C.FALSE]
  names = ["x", "y", "z"]
  values = [1, 2, 3]

  class Machine(RuleBasedStateMachine):
    """Real BlockStates paired with an independently maintained model."""

    states = Bundle("states")
    _last_violation = None

    def __init__(self):
      super().__init__()
      self.log = []
      self.steps = 0

    def _fail(self, sig, detail):
      v = Violation(sig, detail, {"part": "c", "log": list(self.log)})
      type(self)._last_violation = v
      raise v

    def _cmp(self, real, model, what):
      if not den_eq(den(sem, real), model["den"]):
        self._fail("history-denotation-mismatch",
                   "%s: real %r, model %r" % (what, real, model))
      if sem.ev(real._condition) != model["cond"]:  # pylint: disable=protected-access
        self._fail("history-condition-mismatch",
                   "%s: real %r, model %r" % (what, real, model))

    @initialize(target=states)
    def init(self):
      self.log.append(["new"])
      return (S.BlockState({}), {"den": {}, "cond": sem.full})

    @rule(target=states,
          init=st.dictionaries(st.sampled_from(names),
                               st.sampled_from(values), max_size=2))
    def new(self, init):
      self.log.append(["new", init])
      real = S.BlockState(
          {n: V.Variable.from_value(v) for n, v in init.items()})
      model = {"den": {n: {v: sem.full} for n, v in init.items()},
               "cond": sem.full}
      self._cmp(real, model, "new")
      return (real, model)

    @rule(target=states, s=states, n=st.sampled_from(names),
          v=st.sampled_from(values), inplace=st.booleans())
    def store(self, s, n, v, inplace):
      real, model = s
      self.log.append(["store", repr(real), n, v])
      self._cmp(real, model, "store (state as last seen)")
      if inplace:
        # what the frame does: mutate the state in place.  If an earlier
        # operation handed out an alias of another state, that other state's
        # model is now out of date and the next comparison on it fails.
        real.store_local(n, V.Variable.from_value(v))
        model["den"] = {k: dict(vv) for k, vv in model["den"].items()}
        model["den"][n] = {v: model["cond"]}
        self._cmp(real, model, "store in place")
        ctx.case(key=("c-store!", repr(skey(real)), n, v), nontrivial=False,
                 classes=["c:store-in-place"])
        return (real, model)
      r2 = real.merge_into(None)
      r2.store_local(n, V.Variable.from_value(v))
      d = {k: dict(vv) for k, vv in model["den"].items()}
      d[n] = {v: model["cond"]}
      m2 = {"den": d, "cond": model["cond"]}
      self._cmp(r2, m2, "store")
      self._cmp(real, model, "store (original untouched)")
      ctx.case(key=("c-store", repr(skey(real)), n, v), nontrivial=False,
               classes=["c:store"])
      return (r2, m2)

    @rule(target=states, s=states, n=st.sampled_from(names),
          m=st.sampled_from(names))
    def copy_local(self, s, n, m):
      real, model = s
      if m not in real._locals:  # pylint: disable=protected-access
        return (real, model)
      self.log.append(["copy_local", repr(real), n, m])
      r2 = real.merge_into(None)
      r2.store_local(n, r2.load_local(m))
      d = {k: dict(vv) for k, vv in model["den"].items()}
      d[n] = dict(model["den"][m])
      m2 = {"den": d, "cond": model["cond"]}
      self._cmp(r2, m2, "copy_local")
      ctx.case(key=("c-copy", repr(skey(real)), n, m), nontrivial=False,
               classes=["c:copy_local"])
      return (r2, m2)

    @rule(target=states, s=states, c=st.sampled_from(conds))
    def with_condition(self, s, c):
      real, model = s
      self.log.append(["with_condition", repr(real), repr(c)])
      self._cmp(real, model, "with_condition (state as last seen)")
      r2 = real.with_condition(c)
      cm = sem.ev(c)
      m2 = {"den": den_restrict(model["den"], cm), "cond": model["cond"] & cm}
      self._cmp(r2, m2, "with_condition")
      ctx.case(key=("c-wc", repr(skey(real)), repr(c)),
               nontrivial=bool(model["den"]) and cm not in (0, sem.full),
               classes=["c:with_condition"])
      return (r2, m2)

    @rule(target=states, a=states, b=states)
    def merge(self, a, b):
      ra, ma = a
      rb, mb = b
      self.log.append(["merge", repr(ra), repr(rb)])
      self._cmp(ra, ma, "merge (left as last seen)")
      self._cmp(rb, mb, "merge (right as last seen)")
      r2 = ra.merge_into(rb)
      m2 = {"den": den_union(ma["den"], mb["den"]),
            "cond": ma["cond"] | mb["cond"]}
      self._cmp(r2, m2, "merge")
      self._cmp(ra, ma, "merge (left untouched)")
      self._cmp(rb, mb, "merge (right untouched)")
      differ = not den_eq(ma["den"], mb["den"])
      nontriv = (differ and ma["cond"] != mb["cond"] and
                 not (ma["cond"] == sem.full and mb["cond"] == sem.full))
      ctx.case(key=("c-merge", repr(skey(ra)), repr(skey(rb))),
               nontrivial=nontriv,
               sample=("history of %d ops ending in %r.merge_into(%r) -> %r" %
                       (len(self.log), ra, rb, r2)
                       if nontriv and len(self.log) > 6 else None),
               classes=["c:merge"] + (["c:merge-nontrivial"] if nontriv else []))
      return (r2, m2)

  return Machine


def run_shard(ctx):
  if ctx.quick():
    ca = part_a(ctx, depth3_cap=300000)
    cb = part_b(ctx, depth=3, merge_pool=60, cap=5000, pair_cap=400000,
                names=["x", "y"], values=[1, 2])
    state_machine_run(ctx, make_machine(ctx), max_examples=40, step_count=30,
                      label="c")
  else:
    ca = part_a(ctx, depth3_cap=20000000)
    cb = part_b(ctx, depth=4, merge_pool=40, cap=6000, pair_cap=20000000,
                names=["x", "y"], values=[1, 2])
    state_machine_run(ctx, make_machine(ctx), max_examples=3000,
                      step_count=40, label="c")
  ctx.extra["exhaustive_parts"] = (
      "(a) all And/Or/Not terms to depth 2 over p,q,r (arity<=3 at depth 1, "
      "<=2 at depth 2) complete; depth 3 complete=%s; (b) all ordered pairs "
      "of the enumerated reachable states complete=%s" % (ca, cb))


def replay(ctx, case):
  # Replays re-run the part of the search the case came from; the stored
  # reprs document the operands (conditions/states are not eval-able text).
  ctx.case(key=repr(case), nontrivial=True)
  if case.get("part") == "a":
    part_a(ctx, depth3_cap=300000)
  elif case.get("part") == "b":
    part_b(ctx, depth=3, merge_pool=60, cap=5000, pair_cap=10**9,
           names=["x", "y"], values=[1, 2])
  else:
    state_machine_run(ctx, make_machine(ctx), max_examples=200, step_count=30,
                      label="c")
  if ctx.violations:
    v = ctx.violations[0]
    raise Violation(v["signature"], v["detail"], v["case"])
