"""C06 - a module seen through its emitted stub has the types that were
inferred for it.

Upstream module A from vlib/gen_py; downstream module B derived mechanically
from A's emitted stub (re-export every public constant, call every function
with ground arguments of the declared parameter types, instantiate every class
and read its attributes / call its methods).  B is analysed with A available
as (1) modA.pyi on the python path, (2) an imports-map entry to the .pyi,
(3) an imports-map entry to the pickled AST (use_pickled_files).
"""

import os
import shutil

from vlib import an, boot, gen_py
from vlib.run import Violation, hyp_run

ID = "C06"
RULE = (
    "case = one re-exported name of one (upstream program, configuration): "
    "its type in the downstream stub compared (unions as sets, module prefix "
    "stripped) with the type the upstream stub declares; plus the downstream "
    "error log and the equality of the downstream stub across the three "
    "configurations. Non-trivial = the upstream module exports a class with "
    "an inherited or instance attribute, or a function returning a "
    "container / union / user class. distinct = distinct (upstream source, "
    "configuration, name).")
ASSUMPTIONS = [
    "functions whose stub signature contains a TypeVar, more than one "
    "overload, or a parameter of a user class / callable type are not called "
    "downstream (the inferred type is then not a single stub-level type)",
    "ground arguments are built from the declared parameter types",
]

FORBIDDEN = {"import-error", "pyi-error", "attribute-error", "module-attr"}


def _mods():
  boot.ensure()
  from pytype.imports import pickle_utils
  from pytype.pytd import pytd, pytd_utils, serialize_ast
  return pickle_utils, pytd, pytd_utils, serialize_ast


def norm(t, pytd):
  """Canonical, order-insensitive text of a pytd type."""
  if isinstance(t, pytd.Annotated):
    return norm(t.base_type, pytd)
  if isinstance(t, pytd.UnionType):
    return "Union[%s]" % ", ".join(sorted({norm(x, pytd)
                                           for x in t.type_list}))
  if isinstance(t, pytd.TupleType):
    return "tuple[%s]" % ", ".join(norm(x, pytd) for x in t.parameters)
  if isinstance(t, pytd.CallableType):
    return "Callable[[%s], %s]" % (", ".join(norm(x, pytd) for x in t.args),
                                   norm(t.ret, pytd))
  if isinstance(t, pytd.GenericType):
    return "%s[%s]" % (short(t.base_type.name), ", ".join(
        norm(x, pytd) for x in t.parameters))
  if isinstance(t, pytd.AnythingType):
    return "Any"
  if isinstance(t, pytd.NothingType):
    return "nothing"
  if isinstance(t, pytd.Literal):
    return "Literal[%r]" % (t.value,)
  n = getattr(t, "name", None)
  return short(n) if n else repr(t)


def short(n):
  for p in ("modA.", "m.", "builtins."):
    if n.startswith(p):
      return n[len(p):]
  return n


def ground(t, pytd, user_classes):
  """A ground expression of declared type t, or None if not constructible."""
  if isinstance(t, pytd.AnythingType):
    return "1"
  if isinstance(t, pytd.Annotated):
    return ground(t.base_type, pytd, user_classes)
  if isinstance(t, pytd.UnionType):
    for x in t.type_list:
      g = ground(x, pytd, user_classes)
      if g:
        return g
    return None
  if isinstance(t, pytd.TupleType):
    gs = [ground(x, pytd, user_classes) for x in t.parameters]
    if all(gs):
      return "(%s,)" % ", ".join(gs) if gs else "()"
    return None
  if isinstance(t, pytd.GenericType):
    b = short(t.base_type.name)
    ps = [ground(x, pytd, user_classes) for x in t.parameters]
    if b == "list":
      return "[%s]" % ps[0] if ps[0] else "[]"
    if b == "set":
      return "{%s}" % ps[0] if ps[0] else "set()"
    if b == "dict":
      return "{%s: %s}" % (ps[0], ps[1]) if all(ps) else "{}"
    if b == "tuple":
      return "(%s,)" % ps[0] if ps[0] else "()"
    return None
  if isinstance(t, (pytd.ClassType, pytd.NamedType)):
    n = short(t.name)
    return {"int": "1", "float": "1.5", "str": "'s'", "bytes": "b'b'",
            "bool": "True", "NoneType": "None", "complex": "2j",
            "object": "1", "list": "[]", "dict": "{}", "tuple": "()",
            "set": "set()"}.get(n)
  return None


def has_typevar(sig, pytd):
  found = []

  def walk(t):
    if isinstance(t, pytd.ClassType):
      return        # never follow class pointers
    if isinstance(t, pytd.TypeParameter):
      found.append(t)
    for f in getattr(t, "__struct_fields__", ()):
      v = getattr(t, f)
      if isinstance(v, tuple):
        for x in v:
          if hasattr(x, "__struct_fields__"):
            walk(x)
      elif hasattr(v, "__struct_fields__") and not isinstance(
          v, pytd.ClassType):
        walk(v)

  walk(sig)
  return bool(found)


def call_args(sig, pytd, user_classes, skip_first=False):
  args = []
  params = sig.params[1:] if skip_first else sig.params
  for p in params:
    if p.optional:
      continue
    g = ground(p.type, pytd, user_classes)
    if g is None:
      return None
    if str(p.kind).endswith("KWONLY"):
      args.append("%s=%s" % (p.name, g))
    else:
      args.append(g)
  return ", ".join(args)


def derive_downstream(ast):
  """-> (source of B, {name in B: expected pytd type})."""
  _, pytd, _, _ = _mods()
  lines = ["import modA"]
  expect = {}
  user = {c.name.split(".")[-1] for c in ast.classes}
  for c in ast.constants:
    n = c.name.split(".")[-1]
    if n.startswith("_"):
      continue
    lines.append("v_%s = modA.%s" % (n, n))
    expect["v_" + n] = c.type
  for f in ast.functions:
    n = f.name.split(".")[-1]
    if n.startswith("_") or len(f.signatures) != 1:
      continue
    sig = f.signatures[0]
    if has_typevar(sig, pytd) or sig.starargs or sig.starstarargs:
      continue
    a = call_args(sig, pytd, user)
    if a is None:
      continue
    lines.append("r_%s = modA.%s(%s)" % (n, n, a))
    expect["r_" + n] = sig.return_type
  def all_classes(cs, path):
    for c in cs:
      nm = c.name.split(".")[-1]
      yield c, path + [nm]
      yield from all_classes(c.classes, path + [nm])

  for c, cpath in all_classes(ast.classes, []):
    cn = "_".join(cpath)
    dotted = ".".join(cpath)
    if cpath[-1].startswith("_") or c.template:
      continue
    init = [m for m in c.methods if m.name == "__init__"]
    new = [m for m in c.methods if m.name == "__new__"]
    if new:
      continue
    a = ""
    if init:
      if len(init[0].signatures) != 1 or has_typevar(init[0].signatures[0],
                                                     pytd):
        continue
      a = call_args(init[0].signatures[0], pytd, user, skip_first=True)
      if a is None:
        continue
    elif any(b for b in c.bases if short(getattr(b, "name", "object"))
             not in ("object",)):
      continue      # inherited constructor: arguments unknown at this level
    lines.append("i_%s = modA.%s(%s)" % (cn, dotted, a))
    for k in c.constants:
      kn = k.name.split(".")[-1]
      if kn.startswith("_"):
        continue
      lines.append("a_%s_%s = i_%s.%s" % (cn, kn, cn, kn))
      expect["a_%s_%s" % (cn, kn)] = k.type
    for m in c.methods:
      if m.name.startswith("_") or len(m.signatures) != 1:
        continue
      sig = m.signatures[0]
      if (has_typevar(sig, pytd) or sig.starargs or sig.starstarargs or
          "STATIC" in str(m.kind) or "CLASS" in str(m.kind) or
          "PROPERTY" in str(m.kind)):
        continue
      a2 = call_args(sig, pytd, user, skip_first=True)
      if a2 is None:
        continue
      lines.append("m_%s_%s = i_%s.%s(%s)" % (cn, m.name, cn, m.name, a2))
      expect["m_%s_%s" % (cn, m.name)] = sig.return_type
  return "\n".join(lines) + "\n", expect


def check_upstream(ctx, prog):
  pickle_utils, pytd, pytd_utils, serialize_ast = _mods()
  src_a = gen_py.render(prog)
  case = {"src": src_a}
  try:
    ra = an.infer(src_a, name="modA.py", module_name="modA")
  except Exception as e:  # pylint: disable=broad-except
    ctx.event("upstream-analysis-raised:" + type(e).__name__)
    return
  src_b, expect = derive_downstream(ra.ast)
  if len(expect) < 2:
    ctx.event("upstream-exports-too-little")
    return
  d = os.path.join(boot.VERIF, ".run", "C06", "s%d" % ctx.shard)
  shutil.rmtree(d, ignore_errors=True)
  os.makedirs(os.path.join(d, "pp"))
  pyi_path = os.path.join(d, "pp", "modA.pyi")
  with open(pyi_path, "w") as f:
    f.write(ra.pyi)
  with open(os.path.join(d, "map_pyi"), "w") as f:
    f.write("modA %s\n" % pyi_path)
  pickled = os.path.join(d, "modA.pickled")
  try:
    exp_ast = serialize_ast.PrepareForExport("modA", ra.ast,
                                             ra.ret.context.loader)
    pickle_utils.SerializeAndSave(exp_ast, pickled, src_path="modA.py")
    have_pickle = True
  except Exception as e:  # pylint: disable=broad-except
    ctx.check(False, "upstream-stub-not-exportable:" + type(e).__name__,
              str(e)[:300], case)
    have_pickle = False
  with open(os.path.join(d, "map_pickle"), "w") as f:
    f.write("modA %s\n" % pickled)
  configs = [("pythonpath", {"pythonpath": os.path.join(d, "pp")}),
             ("imports-map-pyi", {"imports_map": os.path.join(d, "map_pyi")})]
  if have_pickle:
    configs.append(("imports-map-pickle",
                    {"imports_map": os.path.join(d, "map_pickle"),
                     "use_pickled_files": True}))
  feats = set(prog["features"])
  rich = bool(feats & {"inheritance", "instance", "conditional-return",
                       "branch-different-kinds", "class"})
  stubs = {}
  for cname, kw in configs:
    try:
      rb = an.infer(src_b, name="modB.py", module_name="modB", **kw)
    except Exception as e:  # pylint: disable=broad-except
      ctx.check(False, "downstream-analysis-raises[%s]:%s" % (
          cname, type(e).__name__), "%s\n--- modA.pyi\n%s\n--- modB\n%s" % (
              str(e)[:300], ra.pyi[:800], src_b[:500]),
                dict(case, config=cname))
      continue
    stubs[cname] = rb.pyi
    bad = [e for e in rb.errors if e[0] in FORBIDDEN]
    ctx.check(not bad, "downstream-%s[%s]" % (bad[0][0] if bad else "",
                                              cname),
              "%s: %s\n--- modA.pyi\n%s\n--- modB\n%s" % (
                  cname, bad[:2], ra.pyi[:900], src_b[:600]),
              dict(case, config=cname))
    flagged_lines = {e[1] for e in rb.errors}
    consts = {c.name.split(".")[-1]: c.type for c in rb.ast.constants}
    blines = src_b.split("\n")
    for name, want in expect.items():
      line = next((i + 1 for i, l in enumerate(blines)
                   if l.startswith(name + " = ")), None)
      got = consts.get(name)
      nt = rich and not isinstance(want, (pytd.ClassType, pytd.NamedType))
      ctx.case(key=(src_a, cname, name), nontrivial=nt or rich,
               sample=("%s: %s -> upstream %s" % (
                   cname, blines[line - 1] if line else name,
                   norm(want, pytd))) if nt else None,
               classes=["config:" + cname, "kind:" + name.split("_")[0]])
      if line in flagged_lines:
        ctx.event("downstream-line-has-other-error")
        continue
      if got is None:
        ctx.check(False, "re-exported-name-missing[%s]" % cname,
                  "%s not in downstream stub" % name, dict(case, config=cname))
        continue
      ctx.check(norm(got, pytd) == norm(want, pytd),
                "type-changed-through-stub[%s]:%s" % (cname,
                                                      name.split("_")[0]),
                "%s: %s has type %s downstream, upstream stub declares %s\n"
                "--- modA.pyi\n%s" % (cname, name, norm(got, pytd),
                                      norm(want, pytd), ra.pyi[:900]),
                dict(case, config=cname))
  if len(stubs) >= 2:
    vals = list(stubs.items())
    for cname, text in vals[1:]:
      ctx.check(text == vals[0][1], "downstream-stub-differs-across-configs",
                "%s vs %s" % (vals[0][0], cname), case)
  shutil.rmtree(d, ignore_errors=True)


FIXED = [
    # nested class named like a module-level class; a method returns the
    # module-level one (fix 3694df8)
    """class Node:
  v = 1
class Outer:
  class Node:
    w = "s"
    def up(self):
      return Node()
    def me(self):
      return self
n = Outer.Node()
o = n.up()
p = n.me()
""",
    # a nested class sharing its name with a module-level class
    """class Node:
  v = 1
class Tree:
  class Node:
    w = "s"
    def __init__(self):
      self.peer = Node()
  root = Node()
  def first(self):
    return Node()
t = Tree()
n = Node()
tn = Tree.Node()
""",
    # classes nested two and three levels deep
    """class Outer:
  class Mid:
    class Leaf:
      z = 1.5
      def get(self):
        return "s"
    leaf = Leaf()
    def mk(self):
      return Outer.Mid.Leaf()
  mid = Mid()
  def deep(self):
    return Outer.Mid.Leaf()
o = Outer()
lf = Outer.Mid.Leaf()
m = Outer.Mid()
pair = (lf, m)
lst = [lf]
""",
    # empty containers, optional values, tuples of mixed arity
    """e1 = []
e2 = {}
e3 = set()
def mk_empty():
  return []
def opt(x=None):
  if x:
    return (1, "a")
  return None
class H:
  items = []
  table = {}
  def __init__(self):
    self.pairs = [(1, "a"), (2, "b")]
    self.maybe = None
h = H()
t2 = opt(1)
""",
]


def part_fixed(ctx):
  for i, src in enumerate(FIXED):
    if i % ctx.nshards == ctx.shard:
      check_upstream(ctx, {"header": [], "stmts": [src.rstrip("\n")],
                           "features": ["class", "instance", "inheritance"]})


def run_shard(ctx):
  boot.ensure()
  part_fixed(ctx)
  cfg = gen_py.Cfg(n_stmts=(5, 14))
  hyp_run(ctx, gen_py.program(cfg), lambda p: check_upstream(ctx, p),
          10 if ctx.quick() else 500, label="G")
  cfg2 = gen_py.Cfg(n_stmts=(5, 12), annotations=0.4)
  hyp_run(ctx, gen_py.program(cfg2), lambda p: check_upstream(ctx, p),
          4 if ctx.quick() else 200, label="G-annotated")


def replay(ctx, case):
  prog = {"header": [], "stmts": [case["src"].rstrip("\n")],
          "features": ["class", "instance"]}
  check_upstream(ctx, prog)


def confirm_known(entry):
  from vlib.run import Ctx
  c = Ctx(ID, "quick", 0, 0, 1, [])
  try:
    replay(c, entry["input"])
  except Violation as v:
    return v.signature == entry["signature"]
  return False
