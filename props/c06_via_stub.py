"""C06 - a module seen through its emitted stub has the types that were
inferred for it.

Upstream module A from vlib/gen_py; downstream module B derived mechanically
from A's emitted stub (re-export every public constant, call every function
with ground arguments of the declared parameter types, instantiate every class
and read its attributes / call its methods).  B is analysed with A available
as (1) modA.pyi on the python path, (2) an imports-map entry to the .pyi,
(3) an imports-map entry to the pickled AST (use_pickled_files).
"""

import os
import shutil

from vlib import an, boot, gen_py
from vlib.run import Violation, hyp_run

ID = "C06"
RULE = (
    "case = one re-exported name of one (upstream program, configuration): "
    "its type in the downstream stub compared (unions as sets, module prefix "
    "stripped) with the type the upstream stub declares; plus the downstream "
    "error log and the equality of the downstream stub across the three "
    "configurations. Non-trivial = the upstream module exports a class with "
    "an inherited or instance attribute, or a function returning a "
    "container / union / user class. distinct = distinct (upstream source, "
    "configuration, name).")
ASSUMPTIONS = [
    "functions whose stub signature contains a TypeVar, more than one "
    "overload, or a parameter of a user class / callable type are not called "
    "downstream (the inferred type is then not a single stub-level type)",
    "ground arguments are built from the declared parameter types",
    "generic classes: the expected type of a member read through C[args] is "
    "the stub's declaration with C's parameters replaced, parameters ordered "
    "as PEP 484 says (Generic[...] if present, else first appearance in the "
    "bases); members of user bases are followed, the MRO is not (a name two "
    "bases define is skipped)",
    "members whose type contains None are not read inside downstream "
    "functions (None from an attribute becomes Any there unless "
    "--strict-none-binding is given; vm.py _filter_none_and_paste_bindings)",
]

FORBIDDEN = {"import-error", "pyi-error", "attribute-error", "module-attr"}


def _mods():
  boot.ensure()
  from pytype.imports import pickle_utils
  from pytype.pytd import pytd, pytd_utils, serialize_ast
  return pickle_utils, pytd, pytd_utils, serialize_ast


def norm(t, pytd):
  """Canonical, order-insensitive text of a pytd type."""
  if isinstance(t, pytd.Annotated):
    return norm(t.base_type, pytd)
  if isinstance(t, pytd.UnionType):
    return "Union[%s]" % ", ".join(sorted({norm(x, pytd)
                                           for x in t.type_list}))
  if isinstance(t, pytd.TupleType):
    return "tuple[%s]" % ", ".join(norm(x, pytd) for x in t.parameters)
  if isinstance(t, pytd.CallableType):
    return "Callable[[%s], %s]" % (", ".join(norm(x, pytd) for x in t.args),
                                   norm(t.ret, pytd))
  if isinstance(t, pytd.GenericType) and short(t.base_type.name) in (
      "typing.ClassVar", "ClassVar") and len(t.parameters) == 1:
    return norm(t.parameters[0], pytd)   # a value of that type when read
  if isinstance(t, pytd.GenericType):
    return "%s[%s]" % (short(t.base_type.name), ", ".join(
        norm(x, pytd) for x in t.parameters))
  if isinstance(t, pytd.AnythingType):
    return "Any"
  if isinstance(t, pytd.NothingType):
    return "nothing"
  if isinstance(t, pytd.Literal):
    return "Literal[%r]" % (t.value,)
  n = getattr(t, "name", None)
  return short(n) if n else repr(t)


def short(n):
  for p in ("modA.", "m.", "builtins."):
    if n.startswith(p):
      return n[len(p):]
  return n


def ground(t, pytd, user_classes):
  """A ground expression of declared type t, or None if not constructible."""
  if isinstance(t, pytd.AnythingType):
    return "1"
  if isinstance(t, pytd.Annotated):
    return ground(t.base_type, pytd, user_classes)
  if isinstance(t, pytd.UnionType):
    for x in t.type_list:
      g = ground(x, pytd, user_classes)
      if g:
        return g
    return None
  if isinstance(t, pytd.TupleType):
    gs = [ground(x, pytd, user_classes) for x in t.parameters]
    if all(gs):
      return "(%s,)" % ", ".join(gs) if gs else "()"
    return None
  if isinstance(t, pytd.GenericType):
    b = short(t.base_type.name)
    ps = [ground(x, pytd, user_classes) for x in t.parameters]
    if b == "list":
      return "[%s]" % ps[0] if ps[0] else "[]"
    if b == "set":
      return "{%s}" % ps[0] if ps[0] else "set()"
    if b == "dict":
      return "{%s: %s}" % (ps[0], ps[1]) if all(ps) else "{}"
    if b == "tuple":
      return "(%s,)" % ps[0] if ps[0] else "()"
    return None
  if isinstance(t, (pytd.ClassType, pytd.NamedType)):
    n = short(t.name)
    return {"int": "1", "float": "1.5", "str": "'s'", "bytes": "b'b'",
            "bool": "True", "NoneType": "None", "complex": "2j",
            "object": "1", "list": "[]", "dict": "{}", "tuple": "()",
            "set": "set()"}.get(n)
  return None


def has_typevar(sig, pytd):
  found = []

  def walk(t):
    if isinstance(t, pytd.ClassType):
      return        # never follow class pointers
    if isinstance(t, pytd.TypeParameter):
      found.append(t)
    for f in getattr(t, "__struct_fields__", ()):
      v = getattr(t, f)
      if isinstance(v, tuple):
        for x in v:
          if hasattr(x, "__struct_fields__"):
            walk(x)
      elif hasattr(v, "__struct_fields__") and not isinstance(
          v, pytd.ClassType):
        walk(v)

  walk(sig)
  return bool(found)


def call_args(sig, pytd, user_classes, skip_first=False):
  args = []
  params = sig.params[1:] if skip_first else sig.params
  for p in params:
    if p.optional:
      continue
    g = ground(p.type, pytd, user_classes)
    if g is None:
      return None
    if str(p.kind).endswith("KWONLY"):
      args.append("%s=%s" % (p.name, g))
    else:
      args.append(g)
  return ", ".join(args)


# ---- generic classes: PEP 484 semantics read off the stub, independent of
# pytype's own template bookkeeping

def typevars_in(t, pytd, out):
  if isinstance(t, pytd.TypeParameter):
    if t.name not in out:
      out.append(t.name)
  elif isinstance(t, pytd.GenericType):
    for x in t.parameters:
      typevars_in(x, pytd, out)
  elif isinstance(t, (pytd.UnionType,)):
    for x in t.type_list:
      typevars_in(x, pytd, out)
  elif isinstance(t, pytd.TupleType):
    for x in t.parameters:
      typevars_in(x, pytd, out)
  elif isinstance(t, pytd.CallableType):
    for x in t.args:
      typevars_in(x, pytd, out)
    typevars_in(t.ret, pytd, out)
  elif isinstance(t, pytd.Annotated):
    typevars_in(t.base_type, pytd, out)
  return out


def params_of(cls, pytd):
  """Type parameters of a class in PEP 484 order: those of Generic[...] if it
  is a base, else by first appearance in the bases, left to right."""
  for b in cls.bases:
    if isinstance(b, pytd.GenericType) and short(b.base_type.name) in (
        "typing.Generic", "Generic"):
      return typevars_in(b, pytd, [])
  out = []
  for b in cls.bases:
    typevars_in(b, pytd, out)
  return out


def subst(t, sigma, pytd):
  if isinstance(t, pytd.TypeParameter):
    return sigma.get(t.name, t)
  if isinstance(t, pytd.GenericType):
    return t.Replace(parameters=tuple(subst(x, sigma, pytd)
                                      for x in t.parameters))
  if isinstance(t, pytd.UnionType):
    return pytd.UnionType(tuple(subst(x, sigma, pytd) for x in t.type_list))
  if isinstance(t, pytd.TupleType):
    return t.Replace(parameters=tuple(subst(x, sigma, pytd)
                                      for x in t.parameters))
  if isinstance(t, pytd.Annotated):
    return subst(t.base_type, sigma, pytd)
  return t


def generic_members(cname, sigma, table, pytd, depth=0):
  """{member: ('attr'|'meth', type with the class's parameters replaced)} of a
  user class, inherited members of user bases included (a name defined by two
  different bases is dropped: the MRO is not modelled here)."""
  cls = table[cname]
  out = {}
  for k in cls.constants:
    n = k.name.split(".")[-1]
    if not n.startswith("_"):
      out[n] = ("attr", subst(k.type, sigma, pytd))
  for m in cls.methods:
    if (m.name.startswith("_") or len(m.signatures) != 1 or
        "METHOD" not in str(m.kind).upper() or "STATIC" in str(m.kind) or
        "CLASS" in str(m.kind)):
      continue
    sig = m.signatures[0]
    if sig.starargs or sig.starstarargs or any(
        not p.optional for p in sig.params[1:]):
      continue
    extra = [v for v in typevars_in(sig.return_type, pytd, [])
             if v not in sigma]
    if extra:
      continue
    out[m.name] = ("meth", subst(sig.return_type, sigma, pytd))
  if depth < 4:
    inherited = {}
    dropped = set()
    for b in cls.bases:
      bn = short(b.base_type.name if isinstance(b, pytd.GenericType) else
                 getattr(b, "name", ""))
      if bn not in table:
        continue
      bp = params_of(table[bn], pytd)
      args = (tuple(subst(a, sigma, pytd) for a in b.parameters)
              if isinstance(b, pytd.GenericType) else ())
      if len(args) != len(bp):
        bs = {v: pytd.AnythingType() for v in bp}
      else:
        bs = dict(zip(bp, args))
      for n, v in generic_members(bn, bs, table, pytd, depth + 1).items():
        if n in inherited and inherited[n] != v:
          dropped.add(n)
        inherited[n] = v
    for n, v in inherited.items():
      if n not in out and n not in dropped:
        out[n] = v
  return out


GROUND_ROTATIONS = [["int", "str", "float"], ["str", "bytes", "int"]]


def derive_generic(ast, lines, expect, fexpect):
  """Reads through parameterised instances of user generic classes."""
  _, pytd, _, _ = _mods()
  table = {}

  def reg(cs, prefix):
    for c in cs:
      q = prefix + c.name.split(".")[-1]
      table[q] = c
      reg(c.classes, q + ".")

  reg(ast.classes, "")
  generic = {q: params_of(c, pytd) for q, c in table.items()}
  generic = {q: ps for q, ps in generic.items() if ps}
  # (1) module-level values whose declared type is C[args]: read every member
  #     (twice: the second pass re-reads after the other instances were read)
  reads = []
  for c in ast.constants:
    n = c.name.split(".")[-1]
    t = c.type
    if n.startswith("_") or not isinstance(t, pytd.GenericType):
      continue
    q = short(t.base_type.name)
    if q not in generic or len(generic[q]) != len(t.parameters):
      continue
    sigma = dict(zip(generic[q], t.parameters))
    for m, (kind, mt) in sorted(generic_members(q, sigma, table, pytd).items()):
      reads.append((n, m, kind, mt))
  for tag in ("g", "h"):
    for n, m, kind, mt in reads:
      name = "%s_%s_%s" % (tag, n, m)
      lines.append("%s = modA.%s.%s%s" % (name, n, m,
                                         "()" if kind == "meth" else ""))
      expect[name] = mt
  # (2) a function parameter annotated C[ground types]: the function's return
  #     type is the member's type
  for q, ps in sorted(generic.items()):
    if any(x.startswith("_") for x in q.split(".")):
      continue
    for r, rot in enumerate(GROUND_ROTATIONS):
      names = [rot[i % len(rot)] for i in range(len(ps))]
      sigma = {v: pytd.NamedType("builtins." + g) for v, g in zip(ps, names)}
      ann = "modA.%s[%s]" % (q, ", ".join(names))
      for m, (kind, mt) in sorted(
          generic_members(q, sigma, table, pytd).items()):
        if "NoneType" in norm(mt, pytd):
          # None read from an attribute inside a function is turned into Any
          # on purpose unless --strict-none-binding is given (vm.py
          # _filter_none_and_paste_bindings): outside the property
          continue
        fn = "q%d_%s_%s" % (r, q.replace(".", "_"), m)
        lines.append("def %s(o: %s):\n  return o.%s%s" % (
            fn, ann, m, "()" if kind == "meth" else ""))
        fexpect[fn] = mt


def mentions_bare_generic(t, generic_names, pytd):
  if isinstance(t, (pytd.ClassType, pytd.NamedType)):
    return short(t.name) in generic_names
  if isinstance(t, pytd.GenericType):
    return any(mentions_bare_generic(x, generic_names, pytd)
               for x in t.parameters)
  if isinstance(t, pytd.UnionType):
    return any(mentions_bare_generic(x, generic_names, pytd)
               for x in t.type_list)
  if isinstance(t, pytd.TupleType):
    return any(mentions_bare_generic(x, generic_names, pytd)
               for x in t.parameters)
  return False


def derive_probes(ast, src_a, lines, expect):
  """Upstream probes: a module-level statement `up_x = <expr>` in A records
  what A's own analysis infers for <expr>; B evaluates the same expression
  through the stub (`dp_x = <expr with A's names prefixed by modA.>`) and
  must get the type the stub declares for up_x."""
  import ast as pyast
  try:
    tree = pyast.parse(src_a)
  except SyntaxError:
    return
  top = set()
  for node in tree.body:
    if isinstance(node, (pyast.FunctionDef, pyast.ClassDef,
                         pyast.AsyncFunctionDef)):
      top.add(node.name)
    elif isinstance(node, (pyast.Assign, pyast.AnnAssign)):
      tgs = node.targets if isinstance(node, pyast.Assign) else [node.target]
      for t in tgs:
        if isinstance(t, pyast.Name):
          top.add(t.id)
  consts = {c.name.split(".")[-1]: c.type for c in ast.constants}

  class Prefix(pyast.NodeTransformer):

    def visit_Name(self, n):
      if isinstance(n.ctx, pyast.Load) and n.id in top:
        return pyast.copy_location(pyast.Attribute(
            value=pyast.Name(id="modA", ctx=pyast.Load()), attr=n.id,
            ctx=pyast.Load()), n)
      return n

  for node in tree.body:
    if (isinstance(node, pyast.Assign) and len(node.targets) == 1 and
        isinstance(node.targets[0], pyast.Name) and
        node.targets[0].id.startswith("up_") and
        node.targets[0].id in consts):
      name = node.targets[0].id
      expr = pyast.unparse(pyast.fix_missing_locations(
          Prefix().visit(pyast.parse(pyast.unparse(node.value),
                                     mode="eval").body)))
      lines.append("dp_%s = %s" % (name[3:], expr))
      expect["dp_" + name[3:]] = consts[name]


def derive_downstream(ast, src_a=""):
  """-> (source of B, {name in B: expected pytd type})."""
  _, pytd, _, _ = _mods()
  lines = ["import modA"]
  expect = {}
  derive_probes(ast, src_a, lines, expect)
  user = {c.name.split(".")[-1] for c in ast.classes}
  generic_names = set()

  def reg_generic(cs, prefix):
    for c in cs:
      q = prefix + c.name.split(".")[-1]
      if params_of(c, pytd):
        generic_names.add(q)
      reg_generic(c.classes, q + ".")

  reg_generic(ast.classes, "")
  derive_downstream.generic_names = generic_names
  for c in ast.constants:
    n = c.name.split(".")[-1]
    if n.startswith("_"):
      continue
    if (isinstance(c.type, (pytd.ClassType, pytd.NamedType)) and
        short(c.type.name) in generic_names):
      # a generic class written bare: pytype prints it bare where it was
      # declared and with the parameters' bounds filled in where it is
      # re-exported (`held: Box` / `v_held: modA.Box[modA.Base]`): the same
      # type in two spellings, not comparable as text
      continue
    lines.append("v_%s = modA.%s" % (n, n))
    expect["v_" + n] = c.type
  for f in ast.functions:
    n = f.name.split(".")[-1]
    if n.startswith("_") or len(f.signatures) != 1:
      continue
    sig = f.signatures[0]
    if has_typevar(sig, pytd) or sig.starargs or sig.starstarargs:
      continue
    a = call_args(sig, pytd, user)
    if a is None:
      continue
    lines.append("r_%s = modA.%s(%s)" % (n, n, a))
    expect["r_" + n] = sig.return_type
  def all_classes(cs, path):
    for c in cs:
      nm = c.name.split(".")[-1]
      yield c, path + [nm]
      yield from all_classes(c.classes, path + [nm])

  for c, cpath in all_classes(ast.classes, []):
    cn = "_".join(cpath)
    dotted = ".".join(cpath)
    if cpath[-1].startswith("_") or c.template:
      continue
    init = [m for m in c.methods if m.name == "__init__"]
    new = [m for m in c.methods if m.name == "__new__"]
    if new:
      continue
    a = ""
    if init:
      if len(init[0].signatures) != 1 or has_typevar(init[0].signatures[0],
                                                     pytd):
        continue
      a = call_args(init[0].signatures[0], pytd, user, skip_first=True)
      if a is None:
        continue
    elif any(b for b in c.bases if short(getattr(b, "name", "object"))
             not in ("object",)):
      continue      # inherited constructor: arguments unknown at this level
    lines.append("i_%s = modA.%s(%s)" % (cn, dotted, a))
    for k in c.constants:
      kn = k.name.split(".")[-1]
      if kn.startswith("_"):
        continue
      lines.append("a_%s_%s = i_%s.%s" % (cn, kn, cn, kn))
      expect["a_%s_%s" % (cn, kn)] = k.type
    for m in c.methods:
      if m.name.startswith("_") or len(m.signatures) != 1:
        continue
      sig = m.signatures[0]
      if (has_typevar(sig, pytd) or sig.starargs or sig.starstarargs or
          "STATIC" in str(m.kind) or "CLASS" in str(m.kind) or
          "PROPERTY" in str(m.kind)):
        continue
      a2 = call_args(sig, pytd, user, skip_first=True)
      if a2 is None:
        continue
      lines.append("m_%s_%s = i_%s.%s(%s)" % (cn, m.name, cn, m.name, a2))
      expect["m_%s_%s" % (cn, m.name)] = sig.return_type
  fexpect = {}
  derive_generic(ast, lines, expect, fexpect)
  derive_downstream.fexpect = fexpect
  return "\n".join(lines) + "\n", expect


def check_upstream(ctx, prog):
  pickle_utils, pytd, pytd_utils, serialize_ast = _mods()
  src_a = gen_py.render(prog)
  case = {"src": src_a}
  try:
    ra = an.infer(src_a, name="modA.py", module_name="modA")
  except Exception as e:  # pylint: disable=broad-except
    ctx.event("upstream-analysis-raised:" + type(e).__name__)
    return
  src_b, expect = derive_downstream(ra.ast, src_a)
  fexpect = derive_downstream.fexpect
  if len(expect) + len(fexpect) < 2:
    ctx.event("upstream-exports-too-little")
    return
  d = os.path.join(boot.VERIF, ".run", "C06", "s%d" % ctx.shard)
  shutil.rmtree(d, ignore_errors=True)
  os.makedirs(os.path.join(d, "pp"))
  pyi_path = os.path.join(d, "pp", "modA.pyi")
  with open(pyi_path, "w") as f:
    f.write(ra.pyi)
  with open(os.path.join(d, "map_pyi"), "w") as f:
    f.write("modA %s\n" % pyi_path)
  pickled = os.path.join(d, "modA.pickled")
  try:
    exp_ast = serialize_ast.PrepareForExport("modA", ra.ast,
                                             ra.ret.context.loader)
    pickle_utils.SerializeAndSave(exp_ast, pickled, src_path="modA.py")
    have_pickle = True
  except Exception as e:  # pylint: disable=broad-except
    ctx.check(False, "upstream-stub-not-exportable:" + type(e).__name__,
              str(e)[:300], case)
    have_pickle = False
  with open(os.path.join(d, "map_pickle"), "w") as f:
    f.write("modA %s\n" % pickled)
  configs = [("pythonpath", {"pythonpath": os.path.join(d, "pp")}),
             ("imports-map-pyi", {"imports_map": os.path.join(d, "map_pyi")})]
  if have_pickle:
    configs.append(("imports-map-pickle",
                    {"imports_map": os.path.join(d, "map_pickle"),
                     "use_pickled_files": True}))
  feats = set(prog["features"])
  rich = bool(feats & {"inheritance", "instance", "conditional-return",
                       "branch-different-kinds", "class"})
  stubs = {}
  for cname, kw in configs:
    try:
      rb = an.infer(src_b, name="modB.py", module_name="modB", **kw)
    except Exception as e:  # pylint: disable=broad-except
      ctx.check(False, "downstream-analysis-raises[%s]:%s" % (
          cname, type(e).__name__), "%s\n--- modA.pyi\n%s\n--- modB\n%s" % (
              str(e)[:300], ra.pyi[:800], src_b[:500]),
                dict(case, config=cname))
      continue
    stubs[cname] = rb.pyi
    bad = [e for e in rb.errors if e[0] in FORBIDDEN]
    ctx.check(not bad, "downstream-%s[%s]" % (bad[0][0] if bad else "",
                                              cname),
              "%s: %s\n--- modA.pyi\n%s\n--- modB\n%s" % (
                  cname, bad[:2], ra.pyi[:900], src_b[:600]),
              dict(case, config=cname))
    flagged_lines = {e[1] for e in rb.errors}
    consts = {c.name.split(".")[-1]: c.type for c in rb.ast.constants}
    blines = src_b.split("\n")
    for name, want in expect.items():
      line = next((i + 1 for i, l in enumerate(blines)
                   if l.startswith(name + " = ")), None)
      got = consts.get(name)
      nt = rich and not isinstance(want, (pytd.ClassType, pytd.NamedType))
      ctx.case(key=(src_a, cname, name), nontrivial=nt or rich,
               sample=("%s: %s -> upstream %s" % (
                   cname, blines[line - 1] if line else name,
                   norm(want, pytd))) if nt else None,
               classes=["config:" + cname, "kind:" + name.split("_")[0]])
      if line in flagged_lines:
        ctx.event("downstream-line-has-other-error")
        continue
      if got is None:
        ctx.check(False, "re-exported-name-missing[%s]" % cname,
                  "%s not in downstream stub" % name, dict(case, config=cname))
        continue
      if norm(got, pytd) != norm(want, pytd) and mentions_bare_generic(
          want, derive_downstream.generic_names, pytd):
        # `Box` where it was declared, `Box[<bound>]` where it is re-exported:
        # two spellings of one type
        ctx.event("unverifiable:bare-generic-class-in-declaration")
        continue
      ctx.check(norm(got, pytd) == norm(want, pytd),
                "type-changed-through-stub[%s]:%s" % (cname,
                                                      name.split("_")[0]),
                "%s: %s has type %s downstream, upstream stub declares %s\n"
                "--- modA.pyi\n%s" % (cname, name, norm(got, pytd),
                                      norm(want, pytd), ra.pyi[:900]),
                dict(case, config=cname))
    # functions over parameterised instances: return type = member type
    funcs = {f.name.split(".")[-1]: f for f in rb.ast.functions}
    for fn, want in fexpect.items():
      f = funcs.get(fn)
      line = next((i + 1 for i, l in enumerate(blines)
                   if l.startswith("def %s(" % fn)), 0)
      ctx.case(key=(src_a, cname, fn), nontrivial=True,
               sample="%s: %s -> upstream %s" % (cname, blines[line - 1],
                                                 norm(want, pytd)),
               classes=["config:" + cname, "kind:generic-param"])
      if line in flagged_lines or line + 1 in flagged_lines:
        ctx.event("downstream-line-has-other-error")
        continue
      if f is None or len(f.signatures) != 1:
        ctx.check(False, "re-exported-name-missing[%s]" % cname,
                  "%s not in downstream stub" % fn, dict(case, config=cname))
        continue
      got = f.signatures[0].return_type
      ctx.check(norm(got, pytd) == norm(want, pytd),
                "type-changed-through-stub[%s]:generic-param" % cname,
                "%s: %s returns %s downstream, the upstream stub's "
                "declaration instantiates to %s\n--- modA.pyi\n%s" % (
                    cname, blines[line - 1] + " " + blines[line].strip(),
                    norm(got, pytd), norm(want, pytd), ra.pyi[:1200]),
                dict(case, config=cname))
  if len(stubs) >= 2:
    vals = list(stubs.items())
    for cname, text in vals[1:]:
      ctx.check(text == vals[0][1], "downstream-stub-differs-across-configs",
                "%s vs %s" % (vals[0][0], cname), case)
  shutil.rmtree(d, ignore_errors=True)


FIXED = [
    # @final on a nested class only (fix eb2443c), on methods, at top level
    """from typing import final
class Outer:
  @final
  class Inner:
    x = 1
  def mk(self):
    return Outer.Inner()
o = Outer()
i = Outer.Inner()
""",
    """from typing import final
@final
class Top:
  x = 1
class K:
  @final
  def m(self):
    return 1
  class N:
    @final
    def deep(self):
      return "s"
k = K()
n = K.N()
t = Top()
""",
    # probes (up_x in A, the same expression through the stub in B): bare
    # generic classes with bounded / constrained parameters, ClassVar unions,
    # an alias whose name is a suffix of the class's name
    """from typing import ClassVar, Generic, Optional, TypeVar, Union
class Base:
  n = 1
class Derived(Base): pass
T = TypeVar('T', bound=Base)
S = TypeVar('S', int, str)
class Box(Generic[T]):
  def __init__(self, v: T):
    self.v = v
  def get(self) -> T:
    return self.v
class Pick(Generic[S]):
  def __init__(self, v: S):
    self.v = v
  def get(self) -> S:
    return self.v
def mk() -> Box:
  return Box(Derived())
def mp() -> Pick:
  return Pick(1)
held: Box = Box(Base())
class K:
  default: ClassVar[Optional[int]] = None
  both: ClassVar[Union[int, str]] = 1
  plain: ClassVar[int] = 0
  def __init__(self):
    self.own = 1.5
class MyError(Exception):
  code = 1
Error = MyError
class Outer:
  class Error(Exception):
    code = "s"
def fail():
  return Error()
e = Error()
k = K()
up_1 = mk().get()
up_2 = held.v
up_3 = mp().get()
up_4 = K.default
up_5 = K().both
up_6 = K.plain
up_7 = Error()
up_8 = fail()
up_9 = Error().code
up_10 = Outer.Error().code
up_11 = k.default
up_12 = held.get()
up_14 = [Error(), MyError()]
""",
    # generic classes: members typed by the class's parameters, read through
    # differently parameterised instances
    """from typing import Dict, Generic, List, Optional, Tuple, TypeVar
T = TypeVar("T")
class Shelf(Generic[T]):
  def __init__(self, first: T):
    self.first = first
    self.items: List[T] = [first]
    self.index: Dict[str, List[T]] = {}
    self.tagged: Tuple[T, int] = (first, 0)
    self.spare: Optional[T] = None
    self.size = 1
  def top(self) -> T:
    return self.first
nums = Shelf(1)
words = Shelf("w")
blobs = Shelf(b"b")
""",
    # parameters taken from a base, in non-alphabetical order and permuted
    """from typing import Generic, List, TypeVar
K = TypeVar("K")
V = TypeVar("V")
W = TypeVar("W")
class Pair(Generic[K, V]):
  def __init__(self, key: K, val: V):
    self.key = key
    self.val = val
  def get_key(self) -> K:
    return self.key
  def get_val(self) -> V:
    return self.val
class Flipped(Pair[V, K]):
  def __init__(self, val: K, key: V):
    Pair.__init__(self, key, val)
    self.written_first: K = val
    self.log: List[K] = [val]
class Ordered(Pair[K, V]):
  def __init__(self, key: K, val: V):
    Pair.__init__(self, key, val)
    self.vals: List[V] = [val]
class Triple(Pair[W, K], Generic[K, V, W]):
  def __init__(self, a: K, b: V, c: W):
    Pair.__init__(self, c, a)
    self.mid: V = b
plain = Pair("k", 1)
flipped = Flipped(1.5, "k")
ordered = Ordered("k", 2)
triple = Triple(1, "s", 2.5)
""",
    # public types from modules imported under an alias
    """import collections as coll
import enum as en
class Color(en.Enum):
  RED = 1
  BLUE = 2
class Mode(en.IntEnum):
  A = 1
counts = coll.defaultdict(int)
od = coll.OrderedDict()
Pt = coll.namedtuple("Pt", ["x", "y"])
fav = Color.RED
mode = Mode.A
origin = Pt(0, 0)
def pick(flag):
  if flag:
    return Color.BLUE
  return fav
def table():
  return coll.defaultdict(list)
class Holder:
  def __init__(self):
    self.c = Color.RED
    self.d = coll.OrderedDict()
hold = Holder()
""",
    # nested class named like a module-level class; a method returns the
    # module-level one (fix 3694df8)
    """class Node:
  v = 1
class Outer:
  class Node:
    w = "s"
    def up(self):
      return Node()
    def me(self):
      return self
n = Outer.Node()
o = n.up()
p = n.me()
""",
    # a nested class sharing its name with a module-level class
    """class Node:
  v = 1
class Tree:
  class Node:
    w = "s"
    def __init__(self):
      self.peer = Node()
  root = Node()
  def first(self):
    return Node()
t = Tree()
n = Node()
tn = Tree.Node()
""",
    # classes nested two and three levels deep
    """class Outer:
  class Mid:
    class Leaf:
      z = 1.5
      def get(self):
        return "s"
    leaf = Leaf()
    def mk(self):
      return Outer.Mid.Leaf()
  mid = Mid()
  def deep(self):
    return Outer.Mid.Leaf()
o = Outer()
lf = Outer.Mid.Leaf()
m = Outer.Mid()
pair = (lf, m)
lst = [lf]
""",
    # empty containers, optional values, tuples of mixed arity
    """e1 = []
e2 = {}
e3 = set()
def mk_empty():
  return []
def opt(x=None):
  if x:
    return (1, "a")
  return None
class H:
  items = []
  table = {}
  def __init__(self):
    self.pairs = [(1, "a"), (2, "b")]
    self.maybe = None
h = H()
t2 = opt(1)
""",
]


def part_fixed(ctx):
  for i, src in enumerate(FIXED):
    if i % ctx.nshards == ctx.shard:
      check_upstream(ctx, {"header": [], "stmts": [src.rstrip("\n")],
                           "features": ["class", "instance", "inheritance"]})


def run_shard(ctx):
  boot.ensure()
  part_fixed(ctx)
  cfg = gen_py.Cfg(n_stmts=(5, 14))
  hyp_run(ctx, gen_py.program(cfg), lambda p: check_upstream(ctx, p),
          10 if ctx.quick() else 500, label="G")
  cfg2 = gen_py.Cfg(n_stmts=(5, 12), annotations=0.4)
  hyp_run(ctx, gen_py.program(cfg2), lambda p: check_upstream(ctx, p),
          4 if ctx.quick() else 200, label="G-annotated")
  cfg3 = gen_py.Cfg.everything(annotations=0.3, n_stmts=(4, 10))
  hyp_run(ctx, gen_py.program(cfg3), lambda p: check_upstream(ctx, p),
          4 if ctx.quick() else 200, label="G-everything")


def replay(ctx, case):
  prog = {"header": [], "stmts": [case["src"].rstrip("\n")],
          "features": ["class", "instance"]}
  check_upstream(ctx, prog)


def confirm_known(entry):
  from vlib.run import Ctx
  c = Ctx(ID, "quick", 0, 0, 1, [])
  try:
    replay(c, entry["input"])
  except Violation as v:
    return v.signature == entry["signature"]
  return False
