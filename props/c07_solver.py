"""C07 - the typegraph solver decides binding visibility correctly.

(E) bounded-exhaustive typegraphs (DAGs, no conditions): every query node and
    every binding subset of size <= 3, exact two-sided comparison with the
    reference model in vlib/tg.py.
(R) Hypothesis-generated larger graphs: acyclic without conditions (exact),
    acyclic with conditions (reference-with-strict-conditions => solver),
    arbitrary graphs incl. cycles (accepted => individually reachable,
    accepted => CanHaveCombination, accepted => every subset accepted).
"""

import itertools

from vlib import boot, tg
from vlib.run import Violation, hyp_run

ID = "C07"
RULE = (
    "case = one (typegraph, query node, binding subset of size<=3) query of "
    "HasCombination (plus IsVisible / Filter(strict) / Bindings for "
    "singletons) on a Program built for that graph and never mutated "
    "afterwards (cyclic graphs: a fresh Program per query), compared with a "
    "naive backward "
    "path-enumeration reference. Non-trivial = |subset|>=2, or a goal with "
    ">=2 origins or >=2 source sets, or CanHaveCombination true while the "
    "reference/solver says impossible. distinct = distinct (graph spec, node, "
    "subset).")
ASSUMPTIONS = [
    "reference semantics (vlib/tg.py Reference) written from the property "
    "statement; bindings at one node are unordered (cfg_test.py "
    "test_same_node_origin)",
    "with node conditions only the one-sided implication stated by the "
    "property is asserted; on cyclic graphs only the three implications",
]


# ------------------------------------------------------------ query checks


def check_graph(ctx, spec, kind, max_queries=None, triples=None, tag="E",
                sample=False):
  """kind: 'exact' | 'cond' | 'any'."""
  def probe(p_, nodes_, vars__, binds_):
    # The graph as it stands before the late origins arrive is a graph of the
    # domain too: decide every query on it (same Program object that is
    # extended and queried again below).
    base = {k: v for k, v in spec.items() if k != "late"}
    bref = tg.Reference(base)
    for node in range(spec["n"]):
      for S in tg.subsets_upto(range(len(binds_)), 2):
        got = nodes_[node].HasCombination([binds_[i] for i in S])
        want = bref.explain(node, frozenset(S))
        ctx.case(key=("P", tg_key(spec), node, S), nontrivial=len(S) >= 2,
                 classes=[tag + ":before-late-origin"])
        ctx.check(got == want, "solver-%s" % (
            "accepts-unexplained" if got else "rejects-explained"),
                  "before the late origin: HasCombination(%s) at n%d = %s, "
                  "reference %s" % (list(S), node, got, want),
                  {"spec": base, "node": node, "subset": list(S),
                   "kind": kind})

  p, nodes, vars_, binds = tg.build(
      spec, before_late=probe if kind == "exact" else None)
  nb = len(binds)
  ref = tg.Reference(spec, strict_conds=(kind == "cond"))
  multi = [len(o) >= 2 or any(len(ss) >= 2 for _, ss in o)
           for _, o in spec["bindings"]]
  for lb, _, _ in spec.get("late") or []:
    multi[lb] = True
  nq = 0
  subsets = list(tg.subsets_upto(range(nb), 2))
  if triples is None:
    subsets += list(itertools.combinations(range(nb), 3))
  else:
    subsets += [tuple(t) for t in triples]
  for node in range(spec["n"]):
    reach = ref.backward_reachable(node)
    for S in subsets:
      if max_queries is not None and nq >= max_queries:
        return
      nq += 1
      goals = [binds[i] for i in S]
      if kind == "any":
        # Cyclic graphs: every query on its own freshly built Program, so that
        # query-order effects of the solver's memo (C08's subject, see the
        # known finding there) cannot fake or mask a C07 result.
        got = ask_fresh(spec, node, S)
      else:
        got = nodes[node].HasCombination(goals)
      can = nodes[node].CanHaveCombination(goals)
      case = {"spec": spec, "node": node, "subset": list(S), "kind": kind}
      nontriv = len(S) >= 2 or any(multi[i] for i in S)
      cls = [tag + ":" + kind]
      if kind in ("exact", "cond"):
        want = ref.explain(node, frozenset(S))
        if can and not want:
          nontriv = True
          cls.append(tag + ":reachable-but-unexplained")
        if want:
          cls.append(tag + ":positive")
        if kind == "exact":
          ctx.check(got == want,
                    "solver-%s" % ("accepts-unexplained" if got else
                                   "rejects-explained"),
                    "HasCombination(%s) at n%d = %s, reference %s" %
                    (list(S), node, got, want), case)
        else:
          ctx.check(got or not want, "solver-rejects-explained-with-conditions",
                    "HasCombination(%s) at n%d = False, strict reference True"
                    % (list(S), node), case)
      # implications that hold on every graph
      if got:
        ctx.check(can, "accepted-but-CanHaveCombination-false:" +
                  graph_class(spec),
                  "HasCombination(%s) at n%d but not CanHaveCombination" %
                  (list(S), node), case)
        for i in S:
          ok = any(w in reach for w in ref.origin_at[i])
          ctx.check(ok, "accepted-goal-not-backward-reachable:" +
                    graph_class(spec),
                    "goal %d of %s at n%d has no reachable origin" %
                    (i, list(S), node), case)
        if len(S) >= 2:
          for r in range(1, len(S)):
            for sub in itertools.combinations(S, r):
              ok = (ask_fresh(spec, node, sub) if kind == "any" else
                    nodes[node].HasCombination([binds[i] for i in sub]))
              ctx.check(ok, "accepted-set-has-rejected-subset:" +
                        graph_class(spec),
                        "%s accepted at n%d but subset %s rejected" %
                        (list(S), node, list(sub)), case)
      # CanHaveCombination itself is plain reachability of an origin per goal
      want_can = all(any(w in reach for w in ref.origin_at[i]) for i in S)
      ctx.check(can == want_can, "CanHaveCombination-not-reachability",
                "CanHaveCombination(%s) at n%d = %s, BFS says %s" %
                (list(S), node, can, want_can), case)
      if len(S) == 1 and kind == "exact":
        b = binds[S[0]]
        v = b.variable
        vis = b.IsVisible(nodes[node])
        flt = b in v.Filter(nodes[node], True)
        bnd = b in v.Bindings(nodes[node])
        ctx.check(vis == want, "IsVisible-disagrees",
                  "IsVisible(b%d, n%d)=%s reference %s" %
                  (S[0], node, vis, want), case)
        ctx.check(flt == want, "Filter-disagrees",
                  "b%d in Filter(n%d, strict)=%s reference %s" %
                  (S[0], node, flt, want), case)
        ctx.check(bnd or not want, "Bindings-drops-visible-binding",
                  "b%d visible at n%d but not in Bindings()" % (S[0], node),
                  case)
      ctx.case(key=(tg_key(spec), node, S), nontrivial=nontriv,
               sample=("%s | query n%d %s -> HasCombination=%s (%s)" % (
                   fmt_spec(spec), node, list(S), got, kind)
                       if sample and nontriv and nq % 37 == 0 else None),
               classes=cls)


def graph_class(spec):
  return ("acyclic" if tg.is_acyclic(spec) else "cyclic") + (
      "+conditions" if spec.get("conds") else "")


def ask_fresh(spec, node, S):
  prog, nodes, _, binds = tg.build(spec)   # keep the Program alive
  r = nodes[node].HasCombination([binds[i] for i in S])
  del prog
  return r


def fmt_spec(spec):
  b = "; ".join("b%d:v%d@%s" % (i, v, ",".join(
      "n%d<-%s" % (w, "|".join("{" + ",".join("b%d" % x for x in ss) + "}"
                                for ss in sss)) for w, sss in o))
                for i, (v, o) in enumerate(spec["bindings"]))
  e = " ".join("%d>%d" % tuple(x) for x in spec["edges"])
  c = (" conds=%s" % spec["conds"]) if spec.get("conds") else ""
  if spec.get("late"):
    c += " late-origins=%s" % spec["late"]
    if spec.get("late_api"):
      c += " via " + spec["late_api"]
  return "nodes=%d edges=[%s] %s%s" % (spec["n"], e, b, c)


def tg_key(spec):
  return repr((spec["n"], spec["edges"], spec["bindings"],
               sorted((spec.get("conds") or {}).items()),
               spec.get("late"), spec.get("late_api")))


# ------------------------------------------------------------ exhaustive


def source_set_choices(k, max_ss_size, max_ssets):
  """All non-empty collections of <= max_ssets source sets over k bindings."""
  base = [()]
  for r in range(1, max_ss_size + 1):
    base += list(itertools.combinations(range(k), r))
  out = []
  for m in range(1, max_ssets + 1):
    out += [list(map(list, c)) for c in itertools.combinations(base, m)]
  return out


def enum_bindings(n, nb, nv, max_origins, max_ss_size, max_ssets):
  """All binding lists of exactly nb bindings over n nodes."""

  def rec(k, acc, used_vars):
    if k == nb:
      yield list(acc)
      return
    ss_choices = source_set_choices(k, max_ss_size, max_ssets)
    for v in range(min(nv, used_vars + 1)):   # canonical variable numbering
      for no in range(1, max_origins + 1):
        for where in itertools.combinations(range(n), no):
          for sss in itertools.product(ss_choices, repeat=no):
            acc.append([v, [[w, s] for w, s in zip(where, sss)]])
            yield from rec(k + 1, acc, max(used_vars, v + 1))
            acc.pop()

  yield from rec(0, [], 0)


def enum_specs(n, nb, nv, max_origins, max_ss_size, max_ssets):
  pairs = [(i, j) for i in range(n) for j in range(i + 1, n)]
  for mask in range(1 << len(pairs)):
    edges = [list(pairs[i]) for i in range(len(pairs)) if mask >> i & 1]
    for bl in enum_bindings(n, nb, nv, max_origins, max_ss_size, max_ssets):
      used = {b[0] for b in bl}
      yield {"n": n, "edges": edges, "nv": max(used) + 1,
             "bindings": [[b[0], [[w, [list(s) for s in ss]] for w, ss in b[1]]]
                          for b in bl]}


def enum_specs_late(n, nb, nv, max_origins, max_ss_size, max_ssets):
  """Each base spec extended by ONE late AddOrigin whose source set may name
  bindings created after the target (kept acyclic)."""
  for spec in enum_specs(n, nb, nv, max_origins, max_ss_size, max_ssets):
    k = len(spec["bindings"])
    sets = [()]
    for r in (1, 2):
      sets += list(itertools.combinations(range(k), r))
    for b in range(k):
      for w in range(n):
        for ss in sets:
          if b in ss or not tg.sources_acyclic_with(spec, b, ss):
            continue
          if not any(x > b for x in ss):
            continue   # already covered by the base families
          s2 = dict(spec)
          s2["late"] = [[b, w, list(ss)]]
          yield s2


def enum_specs_late_same(n, nb, nv, max_origins, max_ss_size, max_ssets):
  """Each base spec extended by ONE further source set (over earlier or later
  bindings) at a node where the binding ALREADY has an origin: the history
  'build, query, store the same value again from other sources, query'."""
  for spec in enum_specs(n, nb, nv, max_origins, max_ss_size, max_ssets):
    k = len(spec["bindings"])
    sets = [()]
    for r in (1, 2):
      sets += list(itertools.combinations(range(k), r))
    for b in range(k):
      for w, ssets in spec["bindings"][b][1]:
        for ss in sets:
          if (b in ss or list(ss) in ssets or
              not tg.sources_acyclic_with(spec, b, ss)):
            continue
          for api in ("AddOrigin", "AddBinding"):
            s2 = dict(spec)
            s2["late"] = [[b, w, list(ss)]]
            s2["late_api"] = api
            yield s2


def exhaustive(ctx, families, cap):
  i = 0
  complete = True
  for fam in families:
    late = fam[0] in ("late", "late-same")
    gen = (enum_specs_late_same(*fam[1:]) if fam[0] == "late-same" else
           enum_specs_late(*fam[1:]) if late else enum_specs(*fam))
    for spec in gen:
      i += 1
      if cap is not None and i > cap:
        complete = False
        break
      if i % ctx.nshards != ctx.shard:
        continue
      check_graph(ctx, spec, "exact", tag="E", sample=(i % 5003 == ctx.shard))
  if ctx.shard == 0:
    ctx.extra["E_graphs"] = min(i, cap) if cap else i
  return complete


# ------------------------------------------------------------ random


def spec_strategy(mode):
  """mode: 'dag' | 'cond' | 'cyclic'."""
  from hypothesis import strategies as st

  @st.composite
  def specs(draw):
    n = draw(st.integers(2, 12 if mode != "cyclic" else 8))
    dens = draw(st.sampled_from([0.2, 0.35, 0.5, 0.8]))
    pairs = [(i, j) for i in range(n) for j in range(i + 1, n)]
    thr = int(dens * 100)
    picks = draw(st.lists(st.integers(0, 99), min_size=len(pairs),
                          max_size=len(pairs)))
    edges = [list(p) for p, x in zip(pairs, picks) if x < thr]
    if mode == "cyclic":
      back = draw(st.lists(st.tuples(st.integers(0, n - 1),
                                     st.integers(0, n - 1)), max_size=3))
      edges += [[a, b] for a, b in back if a >= b]
    nv = draw(st.integers(1, 5))
    bindings = []
    for v in range(nv):
      for _ in range(draw(st.integers(1, 4))):
        k = len(bindings)
        norig = draw(st.integers(1, 2))
        wheres = draw(st.lists(st.integers(0, n - 1), min_size=norig,
                               max_size=norig, unique=True))
        origins = []
        for w in wheres:
          nss = draw(st.integers(1, 2))
          ssets = []
          for _ in range(nss):
            size = draw(st.integers(0, min(2, k)))
            ss = sorted(draw(st.lists(st.integers(0, k - 1), min_size=size,
                                      max_size=size, unique=True))) if k else []
            if ss not in ssets:
              ssets.append(ss)
          origins.append([w, ssets])
        bindings.append([v, origins])
    # interleave variables so that "earlier bindings" mixes variables
    spec = {"n": n, "edges": edges, "nv": nv, "bindings": bindings}
    late = []
    for b, w, ss in draw(st.lists(st.tuples(
        st.integers(0, len(bindings) - 1), st.integers(0, n - 1),
        st.lists(st.integers(0, len(bindings) - 1), max_size=2, unique=True)),
                                  max_size=3)):
      spec["late"] = late
      if b not in ss and tg.sources_acyclic_with(spec, b, ss):
        late.append([b, w, sorted(ss)])
    if late:
      spec["late"] = late
    else:
      spec.pop("late", None)
    if mode in ("cond", "cyclic"):
      cn = draw(st.lists(st.tuples(st.integers(0, n - 1),
                                   st.integers(0, len(bindings) - 1)),
                         max_size=4 if mode == "cond" else 2))
      spec["conds"] = {str(a): b for a, b in cn}
    nb = len(bindings)
    triples = draw(st.lists(
        st.lists(st.integers(0, nb - 1), min_size=3, max_size=3, unique=True)
        .map(sorted), max_size=12)) if nb >= 3 else []
    return spec, triples

  return specs()


def random_search(ctx, n_examples):
  for mode, kind, share in (("dag", "exact", 0.5), ("cond", "cond", 0.25),
                            ("cyclic", "any", 0.25)):
    def body(x, kind=kind, mode=mode):
      spec, triples = x
      k = kind
      if mode == "cyclic" and tg.is_acyclic(spec) and not spec.get("conds"):
        k = "exact"
      check_graph(ctx, spec, k, max_queries=4000 if k != "any" else 600,
                  triples=triples, tag="R", sample=True)
    hyp_run(ctx, spec_strategy(mode), body, max(1, int(n_examples * share)),
            label=mode)


# ------------------------------------------------------------ entry

# (n nodes, n bindings, n vars, max origins, max source-set size, max ssets)
FAM_QUICK = [(1, 2, 2, 1, 1, 2), (2, 2, 2, 2, 1, 2), (3, 2, 2, 2, 1, 2),
             (2, 3, 2, 1, 2, 1), (3, 3, 2, 1, 2, 1), (4, 2, 2, 1, 1, 2),
             ("late", 1, 3, 2, 1, 1, 2), ("late", 2, 2, 2, 1, 1, 2),
             ("late", 2, 3, 2, 1, 1, 1), ("late-same", 2, 3, 2, 1, 1, 1),
             ("late-same", 3, 3, 2, 1, 1, 1)]
FAM_THOROUGH = FAM_QUICK + [("late-same", 3, 3, 2, 2, 1, 2),(3, 3, 2, 2, 1, 1), (4, 3, 2, 1, 2, 1),
                            (3, 3, 2, 1, 2, 2), (3, 4, 2, 1, 1, 1),
                            (4, 3, 3, 1, 2, 2), ("late", 2, 3, 2, 1, 2, 2),
                            ("late", 3, 3, 2, 1, 1, 1)]


def run_shard(ctx):
  boot.ensure()
  if ctx.quick():
    c = exhaustive(ctx, FAM_QUICK, cap=150000)
    random_search(ctx, 120)
  else:
    c = exhaustive(ctx, FAM_THOROUGH, cap=12000000)
    random_search(ctx, 6000)
  ctx.extra["exhaustive_part"] = (
      "families (nodes, bindings, vars, max origins, max source-set size, max "
      "source sets): %s; enumerated completely=%s (cap is a fixed-order "
      "prefix)" % (FAM_QUICK if ctx.quick() else FAM_THOROUGH, c))


def replay(ctx, case):
  spec = case["spec"]
  kind = case.get("kind", "exact")
  check_graph(ctx, spec, kind, tag="replay")


def confirm_known(entry):
  """Does the recorded input still violate the property?"""
  from vlib.run import Ctx
  c = Ctx(ID, "quick", 0, 0, 1, [])
  sigs = set()

  def collect(ok, signature, detail, case):   # record instead of raising
    if not ok:
      sigs.add(signature)

  c.check = collect
  check_graph(c, entry["input"]["spec"], entry["input"].get("kind", "any"),
              tag="known")
  return entry["signature"] in sigs
