"""C12 part (A): ASTs emitted for generated programs, after PrepareForExport."""
from vlib import an, boot, gen_py
from vlib.run import hyp_run


def run(ctx, roundtrip):
  boot.ensure()
  from pytype.pytd import serialize_ast
  cfg = gen_py.Cfg.everything(annotations=0.3, n_stmts=(4, 10))

  def body(p):
    src = gen_py.render(p)
    try:
      r = an.infer(src, module_name="m")
    except Exception as e:  # pylint: disable=broad-except
      ctx.event("A:analysis-raised:" + type(e).__name__)
      return
    loader = r.ret.context.loader

    def fresh():
      return serialize_ast.PrepareForExport("m", r.ast, loader)

    try:
      fresh()
    except Exception as e:  # pylint: disable=broad-except
      ctx.event("A:prepare-for-export-raised:" + type(e).__name__)
      return
    # a program that imports a module under another name: serialisation
    # replaces the alias spelling by the real module names on purpose
    roundtrip(ctx, fresh, "program", "P:" + src, {"kind": "program",
                                                  "src": src}, True,
              compare_decl="aliased-import" not in p["features"])

  hyp_run(ctx, gen_py.program(cfg), body, 6 if ctx.quick() else 500,
          label="A")
