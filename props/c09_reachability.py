"""C09 - CFG reachability answers equal true graph reachability at all times.

Generator: insertion histories of nodes and edges on a cfg.Program.
  (E) exhaustive: every history of <= L operations over <= N nodes
      (ops: new node | ConnectTo(i, j) incl. i == j and repeats | ConnectNew(i))
  (R) Hypothesis: histories with up to ~260 nodes / 400 edge operations, node
      counts biased to 63/64/65/127/128/129 so several 64-bit buckets are
      crossed, edges biased to "join two large components".
Oracle: BFS over the recorded edge list (every node reaches itself).
"""

import itertools

from vlib import boot
from vlib.run import Violation

ID = "C09"
RULE = (
    "case = one insertion history (sequence of NewCFGNode / ConnectTo(i,j) / "
    "ConnectNew(i) ops) checked against BFS over recorded edges: all ordered "
    "pairs at the end of each history, and the rows/columns of the last edge's "
    "endpoints after every step in random histories. Non-trivial = history "
    "with >= 65 nodes (second bit bucket), or containing a directed cycle, or "
    "an edge u->v inserted when u already had an ancestor and v a descendant; "
    "distinct = distinct op sequence.")
ASSUMPTIONS = [
    "cfg extension compiled from /repo's current typegraph/*.cc with g++ -O1",
    "oracle: breadth-first search over the edge list recorded by the harness",
]


def EXHAUSTIVE(tier):
  return False


# ---------------------------------------------------------------- model


class Model:

  def __init__(self):
    self.n = 0
    self.succ = []
    self.pred = []

  def add_node(self):
    self.succ.append(set())
    self.pred.append(set())
    self.n += 1
    return self.n - 1

  def add_edge(self, u, v):
    self.succ[u].add(v)
    self.pred[v].add(u)

  def forward(self, u, adj=None):
    adj = adj or self.succ
    seen = {u}
    todo = [u]
    while todo:
      x = todo.pop()
      for y in adj[x]:
        if y not in seen:
          seen.add(y)
          todo.append(y)
    return seen

  def backward(self, v):
    return self.forward(v, self.pred)


class Real:

  def __init__(self):
    cfg = boot.cfg()
    self.p = cfg.Program()
    self.nodes = []

  def add_node(self):
    self.nodes.append(self.p.NewCFGNode("n%d" % len(self.nodes)))

  def connect(self, u, v):
    self.nodes[u].ConnectTo(self.nodes[v])

  def connect_new(self, u):
    self.nodes.append(self.nodes[u].ConnectNew("n%d" % len(self.nodes)))

  def reach(self, a, b):
    return self.p.is_reachable(self.nodes[a], self.nodes[b])


def apply_op(op, real, model):
  """op = ('n',) | ('e', u, v) | ('c', u).  Returns (u, v) edge or None."""
  if op[0] == "n":
    real.add_node()
    model.add_node()
    return None
  if op[0] == "e":
    _, u, v = op
    real.connect(u, v)
    model.add_edge(u, v)
    return (u, v)
  _, u = op
  real.connect_new(u)
  v = model.add_node()
  model.add_edge(u, v)
  return (u, v)


def check_all_pairs(real, model, ops):
  for a in range(model.n):
    fw = model.forward(a)
    for b in range(model.n):
      got = real.reach(a, b)
      exp = b in fw
      if got != exp:
        return ("is_reachable(%d,%d)=%s but BFS says %s" % (a, b, got, exp),
                a, b)
  return None


def check_rows(real, model, u, v):
  fw = model.forward(u)
  bw = model.backward(v)
  for x in range(model.n):
    got = real.reach(u, x)
    if got != (x in fw):
      return ("is_reachable(%d,%d)=%s but BFS says %s" % (u, x, got, x in fw),
              u, x)
    got = real.reach(x, v)
    if got != (x in bw):
      return ("is_reachable(%d,%d)=%s but BFS says %s" % (x, v, got, x in bw),
              x, v)
  return None


def run_history(ops, every_step):
  """Returns (mismatch or None, info)."""
  real, model = Real(), Model()
  has_cycle = False
  join = False
  for k, op in enumerate(ops):
    if op[0] == "e":
      u, v = op[1], op[2]
      if u != v and u in model.forward(v):
        has_cycle = True
      if model.pred[u] and model.succ[v]:
        join = True
    e = apply_op(op, real, model)
    if every_step and e is not None:
      m = check_rows(real, model, *e)
      if m:
        return m, dict(step=k, n=model.n, cycle=has_cycle, join=join)
  m = check_all_pairs(real, model, ops)
  return m, dict(step=len(ops), n=model.n, cycle=has_cycle, join=join)


def signature(mismatch):
  _, a, b = mismatch
  return "is_reachable-disagrees-with-bfs"


# ---------------------------------------------------------------- exhaustive


def gen_histories(max_nodes, max_ops):
  """All op sequences (first op is always a new node), depth-first."""

  def rec(prefix, n, left):
    yield prefix
    if not left:
      return
    if n < max_nodes:
      yield from rec(prefix + (("n",),), n + 1, left - 1)
      for u in range(n):
        yield from rec(prefix + (("c", u),), n + 1, left - 1)
    for u in range(n):
      for v in range(n):
        yield from rec(prefix + (("e", u, v),), n, left - 1)

  yield from rec((("n",),), 1, max_ops - 1)


def exhaustive(ctx, max_nodes, max_ops):
  for i, ops in enumerate(gen_histories(max_nodes, max_ops)):
    if i % ctx.nshards != ctx.shard:
      continue
    m, info = run_history(ops, every_step=False)
    nontriv = info["cycle"] or info["join"]
    ctx.case(key=repr(ops), nontrivial=nontriv,
             sample=(" ".join("".join(map(str, o)) for o in ops)
                     if i % 977 == 0 else None),
             classes=["E:cycle"] * info["cycle"] + ["E:join"] * info["join"])
    if m:
      ctx.check(False, signature(m), m[0],
                {"ops": [list(o) for o in ops], "every_step": False})


# ---------------------------------------------------------------- random


def history_strategy():
  from hypothesis import strategies as st
  sizes = st.one_of(
      st.sampled_from([1, 2, 3, 5, 31, 32, 33, 62, 63, 64, 65, 66, 100, 126,
                       127, 128, 129, 130, 191, 192, 193, 200, 257]),
      st.integers(1, 260))
  idx = st.one_of(
      st.integers(0, 400),
      st.sampled_from([0, 1, 31, 32, 62, 63, 64, 65, 126, 127, 128, 129, 191,
                       192, 193, 255, 256]))

  @st.composite
  def hist(draw):
    n0 = draw(sizes)
    style = draw(st.sampled_from(["none", "chain", "two_chains", "rev_chain"]))
    ops = [("n",)] * n0
    if style == "chain":
      ops += [("e", i, i + 1) for i in range(n0 - 1)]
    elif style == "rev_chain":
      ops += [("e", i + 1, i) for i in range(n0 - 1)]
    elif style == "two_chains":
      h = n0 // 2
      ops += [("e", i, i + 1) for i in range(n0 - 1) if i + 1 != h]
    n = n0
    raw = draw(st.lists(
        st.tuples(st.sampled_from("eeeeeecn"), idx, idx), max_size=60))
    for kind, a, b in raw:
      if kind == "n":
        ops.append(("n",))
        n += 1
      elif kind == "c":
        ops.append(("c", a % n))
        n += 1
      else:
        ops.append(("e", a % n, b % n))
    return tuple(ops)

  return hist()


def random_search(ctx, n_examples):
  def body(ops):
    m, info = run_history(ops, every_step=True)
    classes = []
    if info["n"] >= 65:
      classes.append("R:>=65 nodes")
    if info["n"] >= 129:
      classes.append("R:>=129 nodes")
    if info["cycle"]:
      classes.append("R:cycle")
    if info["join"]:
      classes.append("R:join")
    n_edges = sum(1 for o in ops if o[0] != "n")
    ctx.case(key=repr(ops), nontrivial=bool(classes) and n_edges > 0,
             classes=classes,
             sample="nodes=%d ops=%d tail=%s" % (
                 info["n"], len(ops),
                 " ".join("".join(map(str, o)) for o in ops[-10:])))
    if m:
      ctx.check(False, signature(m), m[0] + " at step %d" % info["step"],
                {"ops": [list(o) for o in ops], "every_step": True})

  from vlib.run import hyp_run
  hyp_run(ctx, history_strategy(), body, n_examples, label="R")


# ---------------------------------------------------------------- entry


def run_shard(ctx):
  if ctx.quick():
    exhaustive(ctx, max_nodes=4, max_ops=6)
    random_search(ctx, 60)
    ctx.extra["exhaustive_part"] = "all 26124 histories <=4 nodes, <=6 ops"
  else:
    exhaustive(ctx, max_nodes=4, max_ops=8)
    exhaustive(ctx, max_nodes=5, max_ops=7)
    random_search(ctx, 4000)
    ctx.extra["exhaustive_part"] = (
        "all histories <=4 nodes/<=8 ops (5808580) and <=5 nodes/<=7 ops "
        "(628453)")


def replay(ctx, case):
  ops = tuple(tuple(o) for o in case["ops"])
  m, info = run_history(ops, every_step=True)
  ctx.case(key=repr(ops), nontrivial=True)
  if m:
    raise Violation(signature(m), m[0], case)
