"""C20 - merging a stub into source changes annotations only.

Programs from vlib/gen_py (nested functions, methods, decorators, defaults,
star-args, class and module variables, existing partial annotations) x
(i) the stub pytype infers for the program, (ii) a generated stub for the same
definitions with random types (bare Any / Never, Optional, scalars, TypeVars).
Oracle: the merged source compiles; its syntax tree after stripping
annotations / typing imports / TypeVar definitions equals the original's;
existing annotations are kept; every inserted annotation is the stub's; no
bare Any / Never is inserted as a return or variable annotation.
"""

import ast as pyast

from vlib import an, boot, gen_py
from vlib.run import Violation, hyp_run

ID = "C20"
RULE = (
    "case = one (program, stub) pair pushed through merge_pyi.merge_sources. "
    "Non-trivial = the merge changed the text and the program has a nested "
    "def, a method, a decorator, an existing annotation, a star-arg or a "
    "class-level variable. distinct = distinct (source, stub).")
ASSUMPTIONS = [
    "both inputs are accepted by libcst (a MergeError on such inputs is a "
    "violation)",
    "annotations are compared as ast.unparse text per definition (function "
    "qualified name + parameter / return, scope + variable name)",
]

STUB_TYPES = ["int", "str", "float", "bool", "Any", "Never", "Optional[int]",
              "list[int]", "dict[str, Any]", "tuple[int, str]", "None",
              "_T0", "Union[int, str]", "Callable[..., Any]", "bytes",
              "list[Any]", "type[int]"]


def _mods():
  boot.ensure()
  from pytype.tools.merge_pyi import merge_pyi
  return merge_pyi


def ann_map(tree):
  """(kind, qualified name, slot) -> annotation text."""
  out = {}
  seen_defs = {}

  def walk(body, prefix):
    for node in body:
      if isinstance(node, (pyast.FunctionDef, pyast.AsyncFunctionDef)):
        q = prefix + node.name
        # a name defined twice in one scope: only the last definition is what
        # the stub describes; earlier ones get their own keys
        seen_defs[q] = seen_defs.get(q, 0) + 1
        if seen_defs[q] < count_defs(body, node.name):
          q = "%s#%d" % (q, seen_defs[q])
        a = node.args
        for x in a.posonlyargs + a.args + a.kwonlyargs + (
            [a.vararg] if a.vararg else []) + ([a.kwarg] if a.kwarg else []):
          if x.annotation is not None:
            out[("func", q, "param:" + x.arg)] = pyast.unparse(x.annotation)
        if node.returns is not None:
          out[("func", q, "return")] = pyast.unparse(node.returns)
        walk(node.body, q + ".")
      elif isinstance(node, pyast.ClassDef):
        walk(node.body, prefix + node.name + ".")
      elif isinstance(node, pyast.AnnAssign) and isinstance(node.target,
                                                            pyast.Name):
        out.setdefault(("var", prefix, node.target.id),
                       pyast.unparse(node.annotation))
      elif isinstance(node, (pyast.If, pyast.Try, pyast.With, pyast.For,
                             pyast.While)):
        for fld in ("body", "orelse", "finalbody"):
          walk(getattr(node, fld, []) or [], prefix)
        for h in getattr(node, "handlers", []) or []:
          walk(h.body, prefix)
  walk(tree.body, "")
  return out


def count_defs(body, name):
  return sum(1 for n in body if isinstance(
      n, (pyast.FunctionDef, pyast.AsyncFunctionDef)) and n.name == name)


class Strip(pyast.NodeTransformer):

  def visit_arg(self, n):
    n.annotation = None
    return n

  def visit_FunctionDef(self, n):
    self.generic_visit(n)
    n.returns = None
    return n

  visit_AsyncFunctionDef = visit_FunctionDef

  def visit_AnnAssign(self, n):
    if n.value is None:
      return None
    return pyast.copy_location(
        pyast.Assign(targets=[n.target], value=n.value), n)

  # Imports are compared separately (every import of the source is still
  # there; the merge may add the ones its annotations need).

  def visit_ImportFrom(self, n):
    return None if n.level == 0 and n.module != "__future__" else n

  def visit_Import(self, n):
    return None


def strip(src):
  tree = Strip().visit(pyast.parse(src))
  tree.body = [s for s in tree.body if not (
      isinstance(s, pyast.Assign) and isinstance(s.value, pyast.Call) and
      getattr(s.value.func, "id", getattr(s.value.func, "attr", "")) ==
      "TypeVar")]

  def fix_empty(node):
    for fld in ("body",):
      b = getattr(node, fld, None)
      if isinstance(b, list) and not b and not isinstance(node, pyast.Module):
        node.body = [pyast.Pass()]
    for ch in pyast.iter_child_nodes(node):
      fix_empty(ch)

  fix_empty(tree)
  return pyast.dump(tree)


def check_pair(ctx, src, stub, label, feats):
  merge_pyi = _mods()
  case = {"src": src, "stub": stub}
  try:
    import libcst
    libcst.parse_module(src)
    libcst.parse_module(stub)
  except Exception:  # pylint: disable=broad-except
    ctx.event("libcst-rejects-input")
    return
  try:
    out = merge_pyi.merge_sources(py=src, pyi=stub)
  except Exception as e:  # pylint: disable=broad-except
    ctx.check(False, "merge-raises:" + type(e).__name__,
              "%s: %s" % (label, str(e)[:300]), case)
    return
  interesting = {"function", "class", "x:decorator", "annotated-param",
                 "annotated-var", "annotated-return", "star-args", "property",
                 "staticmethod", "x:nonlocal"}
  nt = out != src and bool(set(feats) & interesting)
  ctx.case(key=(src, stub), nontrivial=nt,
           sample=("%s\n--- source\n%s\n--- merged\n%s" % (
               label, src[:400], out[:500])) if nt else None,
           classes=[label + ":pairs"] + ([label + ":changed"] if out != src
                                         else []))
  try:
    compile(out, "merged.py", "exec", dont_inherit=True)
  except SyntaxError as e:
    ctx.check(False, "merged-source-does-not-compile",
              "%s: %s\n%s" % (label, e, out[:800]), case)
    return
  ctx.check(strip(out) == strip(src), "merge-changed-more-than-annotations",
            "%s: syntax trees differ after stripping annotations\n--- source\n"
            "%s\n--- merged\n%s" % (label, src[:700], out[:900]), case)
  # the source's own typing imports are code, not annotations: each name it
  # imported is still imported afterwards
  ctx.check(typing_imports(src) <= typing_imports(out),
            "source-import-removed",
            "%s: the source imports %s from typing, the merged text only %s" % (
                label, sorted(typing_imports(src) - typing_imports(out)),
                sorted(typing_imports(out))), case)
  m_src = ann_map(pyast.parse(src))
  m_out = ann_map(pyast.parse(out))
  try:
    m_stub = ann_map(pyast.parse(stub))
  except SyntaxError:
    m_stub = None
  for k, v in m_src.items():
    ctx.check(m_out.get(k) == v, "existing-annotation-changed",
              "%s: %s was %r, now %r" % (label, k, v, m_out.get(k)), case)
  for k, v in m_out.items():
    if k in m_src or "#" in k[1]:
      continue   # (shadowed duplicate definitions are outside the domain)
    if k[2] == "return" or k[0] == "var":
      ctx.check(v not in ("Any", "Never", "typing.Any", "typing.Never"),
                "bare-Any-or-Never-inserted:" + ("return" if k[2] == "return"
                                                 else "variable"),
                "%s: %s got the annotation %r" % (label, k, v), case)
    if m_stub is not None:
      want = m_stub.get(k)
      ctx.check(want is not None and norm(want) == norm(v),
                "inserted-annotation-not-from-stub",
                "%s: %s got %r, the stub says %r" % (label, k, v, want), case)


def typing_imports(src):
  out = set()
  for n in pyast.walk(pyast.parse(src)):
    if isinstance(n, pyast.ImportFrom) and n.level == 0:
      out.update((n.module, a.name, a.asname or "") for a in n.names)
    elif isinstance(n, pyast.Import):
      out.update(("import", a.name, a.asname or "") for a in n.names)
  return out


def norm(a):
  # the merge may spell a name through the import style the source already
  # uses (os.PathLike / PathLike): compare without module prefixes
  import re
  a = a.replace("'", "").replace('"', "")
  return re.sub(r"\b(?:[A-Za-z_]\w*\.)+([A-Za-z_]\w*)", r"\1", a)


def random_stub(draw, src):
  """A stub for the same definitions with random types."""
  from hypothesis import strategies as st
  tree = pyast.parse(src)
  lines = ["from typing import Any, Callable, Never, Optional, TypeVar, Union",
           "_T0 = TypeVar('_T0')"]
  bias_any = draw(st.integers(0, 9)) < 3    # stubs dominated by Any / Never
  t = lambda: (draw(st.sampled_from(["Any", "Never", "Any", "int"]))
               if bias_any else draw(st.sampled_from(STUB_TYPES)))

  def walk(body, indent):
    wrote = False
    declared = set()
    last_def = {}
    for node in body:
      if isinstance(node, (pyast.FunctionDef, pyast.AsyncFunctionDef,
                           pyast.ClassDef)):
        last_def[node.name] = node
    for node in body:
      if isinstance(node, (pyast.FunctionDef, pyast.AsyncFunctionDef,
                           pyast.ClassDef)) and last_def[node.name] is not node:
        continue   # a stub describes the last definition of a name
      if isinstance(node, (pyast.FunctionDef, pyast.AsyncFunctionDef)):
        a = node.args
        ps = []
        allp = a.posonlyargs + a.args
        ndef = len(a.defaults)
        for i, x in enumerate(allp):
          s = x.arg
          if x.arg not in ("self", "cls") and draw(st.integers(0, 9)) < 8:
            s += ": " + t()
          if i >= len(allp) - ndef:
            s += " = ..."
          ps.append(s)
          if a.posonlyargs and i == len(a.posonlyargs) - 1:
            ps.append("/")
        if a.vararg:
          ps.append("*" + a.vararg.arg)
        elif a.kwonlyargs:
          ps.append("*")
        for x, d in zip(a.kwonlyargs, a.kw_defaults):
          ps.append(x.arg + ": " + t() + (" = ..." if d is not None else ""))
        if a.kwarg:
          ps.append("**" + a.kwarg.arg)
        for d in node.decorator_list:
          if isinstance(d, pyast.Name) and d.id in ("staticmethod",
                                                    "classmethod", "property"):
            lines.append(indent + "@" + d.id)
        lines.append("%s%sdef %s(%s) -> %s: ..." % (
            indent, "async " if isinstance(node, pyast.AsyncFunctionDef)
            else "", node.name, ", ".join(ps), t()))
        wrote = True
      elif isinstance(node, pyast.ClassDef):
        lines.append("%sclass %s:" % (indent, node.name))
        if not walk(node.body, indent + "    "):
          lines.append(indent + "    pass")
        wrote = True
      elif isinstance(node, (pyast.Assign, pyast.AnnAssign)):
        tg = node.targets[0] if isinstance(node, pyast.Assign) else node.target
        if (isinstance(tg, pyast.Name) and tg.id not in declared and
            tg.id not in last_def and draw(st.integers(0, 9)) < 7):
          declared.add(tg.id)
          # with or without a value, as in `x: int = ...`
          lines.append("%s%s: %s%s" % (indent, tg.id, t(),
                                      " = ..." if draw(st.integers(0, 2)) == 0
                                      else ""))
          wrote = True
    return wrote

  walk(tree.body, "")
  return "\n".join(lines) + "\n"


def run_shard(ctx):
  boot.ensure()
  from hypothesis import strategies as st
  cfgs = [gen_py.Cfg(n_stmts=(4, 10), annotations=0.0, decorators=True,
                     global_=True, star=True),
          gen_py.Cfg(n_stmts=(4, 10), annotations=0.35, decorators=True,
                     global_=True)]

  def inferred(p):
    src = gen_py.render(p)
    try:
      r = an.infer(src)
    except Exception as e:  # pylint: disable=broad-except
      ctx.event("analysis-raised:" + type(e).__name__)
      return
    check_pair(ctx, src, r.pyi, "inferred-stub", p["features"])

  canary(ctx, first=True)
  for src, stub in FIXED:
    check_pair(ctx, src, stub, "fixed", ["function", "class"])
    canary(ctx)
  for i, cfg in enumerate(cfgs):
    hyp_run(ctx, gen_py.program(cfg), inferred, 8 if ctx.quick() else 400,
            label="I%d" % i)
    canary(ctx)

  @st.composite
  def with_random_stub(draw):
    p = draw(gen_py.program(cfgs[draw(st.integers(0, 1))]))
    src = gen_py.render(p)
    # sometimes the source has typing imports of its own that nothing uses
    # (re-exports, leftovers)
    extra = draw(st.sampled_from(["", "", "from typing import Any\n",
                                  "from typing import Any, Optional\n",
                                  "import typing\n",
                                  "from typing import Never as _N, Union\n"]))
    if extra and "from __future__" not in src:
      src = extra + src
    return src, random_stub(draw, src), p["features"]

  hyp_run(ctx, with_random_stub(),
          lambda x: check_pair(ctx, x[0], x[1], "generated-stub", x[2]),
          40 if ctx.quick() else 4000, label="R")
  canary(ctx)


CANARY = ("def cf(a, b=1):\n  return a\ncx = cf(1)\nclass CK:\n  y = 2\n"
          "  def m(self, q):\n    return q\n",
          "from typing import Any\ndef cf(a: int, b: int = ...) -> int: ...\n"
          "cx: int\nclass CK:\n  y: int\n  def m(self, q: str) -> str: ...\n")


def canary(ctx, first=False):
  """The same small pair merged again and again between the other merges: its
  output may depend on nothing but its two inputs."""
  merge_pyi = _mods()
  out = merge_pyi.merge_sources(py=CANARY[0], pyi=CANARY[1])
  if first or not hasattr(canary, "out"):
    canary.out = out
    return
  ctx.check(out == canary.out, "merge-depends-on-earlier-merges",
            "the canary pair merged differently after other merges in the "
            "same process\n--- first\n%s\n--- now\n%s" % (canary.out, out),
            {"src": CANARY[0], "stub": CANARY[1], "history": True})


TQ = '"' * 3
TS = "'" * 3
FIXED = [
    # stubs that need imports of their own (must not leak into later merges)
    ("def price(x):\n  return x\ntotal = price(1)\n",
     "from decimal import Decimal\nfrom fractions import Fraction\n"
     "def price(x: Fraction) -> Decimal: ...\ntotal: Decimal\n"),
    ("def path(p):\n  return p\nroot = path('.')\n",
     "import os\nfrom collections import OrderedDict\n"
     "def path(p: os.PathLike) -> OrderedDict: ...\nroot: OrderedDict\n"),
    # triple-quoted strings with trailing blanks inside rewritten lines
    ("doc = " + TQ + "first   \nsecond\t\n" + TQ + "\ndef g(a, b=" + TQ +
     "x  \n y" + TQ + "):\n  return a\nclass T:\n  s = " + TS + "k   \n" + TS +
     "\n  def m(self, z=" + TS + "p \nq" + TS + "):\n    return z\n",
     "doc: str\ndef g(a: int, b: str = ...) -> int: ...\nclass T:\n  s: str\n"
     "  def m(self, z: str = ...) -> str: ...\n"),
    # stub declarations that carry a value
    ("import attr\nowner = attr.ib(default=None)\nclass R:\n  f = make()\n"
     "  g = 1\n",
     "from typing import Any, Never\nowner: Any = ...\nclass R:\n"
     "  f: Any = ...\n  g: Never = ...\n"),
    # the source's own, unused typing imports
    ("from typing import Any, Optional\nimport typing\n\ndef f(a):\n  return a\n"
     "x = f(1)\n",
     "from typing import Any, Optional\ndef f(a: Optional[int]) -> Any: ...\n"
     "x: int\n"),
    # the source already carries bare Any / Never annotations
    ("from typing import Any, Never\ndef load(path) -> Any:\n  return path\n"
     "def stop() -> Never:\n  raise SystemExit\nx: Any = load(1)\n"
     "class K:\n  y: Any = 0\n  def m(self, a: Any) -> Any:\n    return a\n",
     "from typing import Any, Never\ndef load(path: str) -> Any: ...\n"
     "def stop() -> Never: ...\nx: Any\nclass K:\n  y: Any\n"
     "  def m(self, a: int) -> Any: ...\n"),
    # a class whose stub members are all Any / Never declarations
    ("class Cfg:\n  host = get()\n  port = get()\n\nclass Other:\n  a = 1\n",
     "from typing import Any, Never\nclass Cfg:\n  host: Any\n  port: Never\n\n"
     "class Other:\n  a: Any\n"),
    # static / class methods and properties returning Any / Never
    ("class S:\n  @staticmethod\n  def sm(x):\n    return x\n  @classmethod\n"
     "  def cm(cls):\n    return cls\n  @property\n  def p(self):\n    return 1\n",
     "from typing import Any, Never\nclass S:\n  @staticmethod\n"
     "  def sm(x: int) -> Any: ...\n  @classmethod\n  def cm(cls) -> Never: ...\n"
     "  @property\n  def p(self) -> Any: ...\n"),
    ("import os\nx = os.foo()\ndef f(a, b):\n  return a\nclass A:\n  y = os.bar\n"
     "  def m(self, q): return q\n",
     "from typing import Any, Never\nx: Any\ndef f(a: Any, b: int) -> Any: ...\n"
     "class A:\n  y: Any\n  def m(self, q) -> Never: ...\n"),
    ("a, b = 1, 's'\nc = d = 2\ndef g(x=1, *r, k=2, **kw):\n  def inner(z):\n"
     "    return z\n  return inner\n",
     "from typing import Any\na: int\nb: str\nc: Never\nd: Any\n"
     "def g(x: int = ..., *r: int, k: str = ..., **kw: Any) -> Any: ...\n"),
]


def replay(ctx, case):
  if case.get("history"):
    canary(ctx, first=True)
    for src, stub in FIXED:
      check_pair(ctx, src, stub, "fixed", ["function", "class"])
      canary(ctx)
    return
  check_pair(ctx, case["src"], case["stub"], "replay", ["function", "class"])


def confirm_known(entry):
  from vlib.run import Ctx
  c = Ctx(ID, "quick", 0, 0, 1, [])
  try:
    replay(c, entry["input"])
  except Violation as v:
    return v.signature == entry["signature"]
  return False
