"""C13 - calls bind arguments exactly as CPython does.

Exhaustive (sharded, capped per tier) over signatures x call shapes x callee
kinds; CPython itself is the oracle: each call expression is evaluated under
CPython (the callee returns all its parameters), a TypeError <=> pytype
reports an arity/keyword error on that line, and otherwise the stub type of
the result names, position by position, the class of the argument CPython
bound to each parameter.
"""

import itertools

from vlib import an, boot
from vlib.run import Violation, hyp_run

ID = "C13"
RULE = (
    "case = one call expression (signature, callee kind, number of positional "
    "arguments, set of keyword names) inside a generated module of ~120 calls; "
    "every argument and every default is an instance of its own class so the "
    "binding is observable in the result type. Non-trivial = the call passes "
    "a positional-or-keyword parameter by keyword, names a positional-only "
    "parameter or an unknown name, relies on a default, overflows into "
    "*args/**kwargs, or fails to bind under CPython. distinct = distinct "
    "(signature, kind, call shape).")
ASSUMPTIONS = [
    "CPython 3.12 evaluates each call expression; TypeError from binding is "
    "the only way these calls can fail (callees just return their parameters)",
    "a parameter position whose stub type is Any cannot be verified and is "
    "counted, not reported",
]

ARITY_ERRORS = {"wrong-arg-count", "missing-parameter", "wrong-keyword-args",
                "duplicate-keyword-argument"}
KINDS = ["function", "method", "classmethod", "staticmethod", "constructor",
         "stub-function", "stub-method", "new", "new-inherited",
         "constructor-inherited", "new-instance-inherited"]


def all_signatures(max_each=2):
  """(posonly names, regular names, kwonly names, n positional defaults,
  kwonly default mask, varargs, kwargs)."""
  out = []
  for npo in range(max_each + 1):
    for nreg in range(max_each + 1):
      for nkw in range(max_each + 1):
        npos = npo + nreg
        for ndef in range(npos + 1):
          for kwmask in range(1 << nkw):
            for va in (False, True):
              for kwa in (False, True):
                out.append((npo, nreg, nkw, ndef, kwmask, va, kwa))
  return out


def sig_text(sig):
  npo, nreg, nkw, ndef, kwmask, va, kwa = sig
  pos = ["a", "b", "c"][:npo]
  reg = ["d", "e", "g"][:nreg]
  kw = ["h", "i", "j"][:nkw]
  allpos = pos + reg
  parts = []
  for k, n in enumerate(allpos):
    s = n
    if k >= len(allpos) - ndef:
      s += "=D_%s()" % n
    parts.append(s)
    if pos and k == len(pos) - 1:
      parts.append("/")
  if va:
    parts.append("*args")
  elif kw:
    parts.append("*")
  for k, n in enumerate(kw):
    parts.append(n + ("=D_%s()" % n if kwmask >> k & 1 else ""))
  if kwa:
    parts.append("**kw")
  names = allpos + (["args"] if va else []) + kw + (["kw"] if kwa else [])
  return ", ".join(parts), names, allpos + kw


def call_shapes(param_names, max_pos=5, max_kw=3, cap_kw_names=7,
                extra_names=()):
  names = list(param_names) + ["zz"] + list(extra_names)
  out = []
  for npos in range(max_pos + 1):
    for r in range(max_kw + 1):
      for ks in itertools.combinations(names, r):
        out.append((npos, ks))
  return out


def valid_shapes(sig):
  """Call shapes constructed to bind (or to fail only for one precise reason):
  every split between positional and keyword passing, every subset of
  defaulted parameters omitted, extra positional / keyword overflow."""
  npo, nreg, nkw, ndef, kwmask, va, kwa = sig
  pos = ["a", "b", "c"][:npo]
  reg = ["d", "e", "g"][:nreg]
  kw = ["h", "i", "j"][:nkw]
  allpos = pos + reg
  has_default = {n: k >= len(allpos) - ndef for k, n in enumerate(allpos)}
  for k, n in enumerate(kw):
    has_default[n] = bool(kwmask >> k & 1)
  out = []
  for npos in range(0, len(allpos) + (3 if va else 1)):
    rest = [n for n in allpos[npos:]] + kw
    by_kw_possible = [n for n in rest if n not in pos]
    optional = [n for n in by_kw_possible if has_default[n]]
    required = [n for n in by_kw_possible if not has_default[n]]
    for r in range(len(optional) + 1):
      for opt in itertools.combinations(optional, r):
        ks = tuple(required) + opt
        out.append((npos, ks))
        if va:
          out.append((npos, ks + ("args",)))
        if kwa:
          out.append((npos, ks + ("kw",)))
          out.append((npos, ks + ("zz",)))
          if pos:
            out.append((npos, ks + (pos[0],)))
  return out


PRELUDE_NAMES = ["a", "b", "c", "d", "e", "g", "h", "i", "j", "zz", "args",
                 "kw"]


def prelude():
  lines = []
  for k in range(6):
    lines.append("class P%d: pass" % k)
  for n in PRELUDE_NAMES:
    lines.append("class KW_%s: pass" % n)
    lines.append("class D_%s: pass" % n)
  return lines


def stub_params(sig):
  """The same signature in stub syntax (defaults are `...`, all Any)."""
  params, _, _ = sig_text(sig)
  import re
  return re.sub(r"=D_\w+\(\)", "=...", params)


def build_module(sig, kind, shapes):
  params, names, _ = sig_text(sig)
  if kind.startswith("stub-"):
    sp = stub_params(sig)
    sep = ", " if sp else ""
    if kind == "stub-function":
      stub = "def f(%s) -> int: ...\n" % sp
      pydef = "def f(%s): return 0" % params
      callee = "stubmod.f"
    else:
      stub = "class C:\n    def f(self%s%s) -> int: ...\n" % (sep, sp)
      pydef = "class C:\n  def f(self%s%s): return 0" % (sep, params)
      callee = "stubmod.C().f"
    lines = prelude() + ["import stubmod"]
    first_line = len(lines) + 1
    calls = []
    for k, (npos, ks) in enumerate(shapes):
      args = ["P%d()" % i for i in range(npos)] + [
          "%s=KW_%s()" % (n, n) for n in ks]
      expr = "%s(%s)" % (callee, ", ".join(args))
      lines.append("r%d = %s" % (k, expr))
      calls.append(expr)
    return ("\n".join(lines) + "\n", calls, first_line, [],
            {"stub": stub, "pydef": pydef})
  ret = "(%s)" % "".join(n + ", " for n in names) if names else "()"
  lines = prelude()
  if kind == "function":
    lines += ["def f(%s): return %s" % (params, ret)]
    callee = "f"
  else:
    sep = ", " if params else ""
    lines.append("class C:")
    if kind == "method":
      lines.append("  def f(self%s%s): return %s" % (sep, params, ret))
      callee = "C().f"
    elif kind == "classmethod":
      lines += ["  @classmethod",
                "  def f(cls%s%s): return %s" % (sep, params, ret)]
      callee = "C.f"
    elif kind == "staticmethod":
      lines += ["  @staticmethod", "  def f(%s): return %s" % (params, ret)]
      callee = "C.f"
    elif kind == "new":
      # __new__ may return any object: the bound parameters themselves
      lines.append("  def __new__(cls%s%s): return %s" % (sep, params, ret))
      callee = "C"
    elif kind == "new-inherited":
      # only an inherited __new__, no __init__ anywhere: object.__init__ must
      # not be bound against the arguments
      lines.append("  def __new__(cls%s%s): return %s" % (sep, params, ret))
      lines += ["class C1(C): pass", "class C2(C1):", "  z = 1"]
      callee = "C2"
    elif kind == "new-instance-inherited":
      # __new__ returns a real instance, so __init__ (object's) runs as well;
      # arity only: which parameter got what is not observable here without
      # per-instance attributes set in __new__ (known C01 finding)
      lines.append("  def __new__(cls%s%s): return super().__new__(cls)" % (
          sep, params))
      lines += ["class C1(C): pass", "class C2(C1):", "  z = 1"]
      callee = "C2"
      names = []
    elif kind == "constructor-inherited":
      lines.append("  def __init__(self%s%s): self.got = %s" % (sep, params,
                                                                 ret))
      lines += ["class C1(C): pass", "class C2(C1):", "  z = 1"]
      callee = "C2"
    else:
      lines.append("  def __init__(self%s%s): self.got = %s" % (sep, params,
                                                                 ret))
      callee = "C"
  calls = []
  first_line = len(lines) + 1
  for k, (npos, ks) in enumerate(shapes):
    args = ["P%d()" % i for i in range(npos)] + [
        "%s=KW_%s()" % (n, n) for n in ks]
    expr = "%s(%s)" % (callee, ", ".join(args))
    if kind in ("constructor", "constructor-inherited"):
      expr += ".got"
    lines.append("r%d = %s" % (k, expr))
    calls.append(expr)
  return "\n".join(lines) + "\n", calls, first_line, names, None


def runtime_outcome(ns, expr):
  try:
    v = eval(expr, ns)  # pylint: disable=eval-used
  except TypeError as e:
    return ("error", str(e))
  return ("ok", v)


def cls_name(t):
  n = getattr(t, "name", None)
  return n.split(".")[-1] if n else None


def describe(pt_type, pytd):
  """pytd type -> comparable description."""
  if isinstance(pt_type, pytd.AnythingType):
    return "Any"
  if isinstance(pt_type, pytd.TupleType):
    return ("tuple", [describe(p, pytd) for p in pt_type.parameters])
  if isinstance(pt_type, pytd.GenericType):
    base = pt_type.base_type.name.split(".")[-1]
    if base == "tuple":
      return ("tuple*", describe(pt_type.parameters[0], pytd))
    if base == "dict":
      return ("dict", describe(pt_type.parameters[1], pytd))
    return ("generic", base)
  if isinstance(pt_type, pytd.UnionType):
    return ("union", sorted(str(describe(p, pytd)) for p in pt_type.type_list))
  if isinstance(pt_type, pytd.NothingType):
    return "nothing"
  return cls_name(pt_type) or repr(pt_type)


def expected_desc(v):
  if isinstance(v, tuple):
    return ("tuple", [type(x).__name__ for x in v])
  if isinstance(v, dict):
    return ("dict", sorted({type(x).__name__ for x in v.values()}))
  return type(v).__name__


def position_ok(got, exp):
  """got: description from the stub; exp: from the run-time value."""
  if got == "Any":
    return None      # unverifiable
  if isinstance(exp, str):
    return got == exp
  if exp[0] == "tuple":
    if got == ("tuple", exp[1]):
      return True
    if not exp[1] and got in (("tuple", []), ("tuple*", "nothing"),
                              ("generic", "tuple"), "tuple"):
      return True
    if isinstance(got, tuple) and got[0] == "tuple*":
      inner = got[1]
      names = set(exp[1])
      if isinstance(inner, str):
        return names == {inner}
      if inner[0] == "union":
        return set(inner[1]) == {str(n) for n in names}
    return False
  if exp[0] == "dict":
    names = exp[1]
    if isinstance(got, tuple) and got[0] == "dict":
      inner = got[1]
      if not names:
        return inner in ("nothing", "Any") or None
      if isinstance(inner, str):
        return names == [inner] if inner != "Any" else None
      if inner[0] == "union":
        return sorted(inner[1]) == sorted(str(n) for n in names)
    if not names and got in (("generic", "dict"), "dict"):
      return True
    return False
  return False


def check_module(ctx, sig, kind, shapes):
  boot.ensure()
  from pytype.pytd import pytd
  src, calls, first_line, names, stubinfo = build_module(sig, kind, shapes)
  case = {"sig": list(sig), "kind": kind, "shapes": [[n, list(k)]
                                                     for n, k in shapes]}
  extra = {}
  if stubinfo:
    import os
    d = os.path.join(boot.VERIF, ".run", "C13", "s%d" % ctx.shard)
    os.makedirs(d, exist_ok=True)
    with open(os.path.join(d, "stubmod.pyi"), "w") as f:
      f.write(stubinfo["stub"])
    extra = {"pythonpath": d}
  try:
    r = an.infer(src, **extra)
  except Exception as e:  # pylint: disable=broad-except
    ctx.event("analysis-raised:" + type(e).__name__)
    return
  if any(n in ("import-error", "pyi-error") for n, _, _ in r.errors):
    raise RuntimeError("harness: stub module not importable: %s" % r.errors[:2])
  ns = {}
  defs = "\n".join(l for l in src.split("\n")[:first_line - 1]
                   if l != "import stubmod")
  exec(compile(defs, "m.py", "exec"), ns)  # pylint: disable=exec-used
  if stubinfo:
    import types
    mod = types.ModuleType("stubmod")
    mod.__dict__.update(ns)
    exec(compile(stubinfo["pydef"], "stubmod.py", "exec"), mod.__dict__)  # pylint: disable=exec-used
    ns["stubmod"] = mod
  errs = {}
  for name, line, msg in r.errors:
    errs.setdefault(line, []).append((name, msg))
  consts = {c.name: c.type for c in r.ast.constants}
  params_text, _, plain = sig_text(sig)
  npo = sig[0]
  posonly = set(["a", "b", "c"][:npo])
  for k, expr in enumerate(calls):
    line = first_line + k
    npos, ks = shapes[k]
    out = runtime_outcome(ns, expr)
    here = [e for e in errs.get(line, [])]
    arity = [e for e in here if e[0] in ARITY_ERRORS]
    nontriv = (out[0] == "error" or any(n in plain and n not in posonly
                                        for n in ks) or
               any(n in posonly or n == "zz" for n in ks) or
               npos + len(ks) < len(plain) or npos > len(plain) - sig[2])
    ctx.case(key=(tuple(sig), kind, npos, ks), nontrivial=nontriv,
             sample=("def f(%s) [%s]: %s -> %s" % (
                 params_text, kind, expr,
                 "TypeError" if out[0] == "error" else "binds"))
             if nontriv and k % 41 == 0 else None,
             classes=["kind:" + kind, "cpython:" + out[0]])
    c = dict(case, call=expr, line=line)
    if out[0] == "error":
      ctx.check(bool(arity), "call-CPython-rejects-not-reported",
                "def f(%s) [%s]: %s raises TypeError(%s) but pytype reports %s"
                % (params_text, kind, expr, out[1], here or "nothing"), c)
      continue
    ctx.check(not arity, "call-CPython-accepts-reported",
              "def f(%s) [%s]: %s binds under CPython but pytype reports %s" %
              (params_text, kind, expr, arity), c)
    if here:
      ctx.event("other-error-on-call-line:" + here[0][0])
      continue
    t = consts.get("r%d" % k)
    if t is None:
      ctx.check(False, "call-result-missing-from-stub",
                "r%d = %s not in the stub" % (k, expr), c)
      continue
    d = describe(t, pytd)
    v = out[1]
    if not names:
      continue
    if d == "Any":
      ctx.event("unverifiable:result-Any")
      continue
    if not (isinstance(d, tuple) and d[0] == "tuple" and
            len(d[1]) == len(v)):
      ctx.check(False, "result-shape-differs",
                "def f(%s) [%s]: %s: stub type %s, run-time %s" % (
                    params_text, kind, expr, d, [expected_desc(x) for x in v]),
                c)
      continue
    for pname, got, val in zip(names, d[1], v):
      ok = position_ok(got, expected_desc(val))
      if ok is None:
        ctx.event("unverifiable:parameter-Any")
        continue
      ctx.check(ok, "parameter-bound-to-wrong-argument",
                "def f(%s) [%s]: %s: parameter %s has stub type %s but "
                "CPython binds %s" % (params_text, kind, expr, pname, got,
                                      expected_desc(val)), c)


def plan(tier):
  """List of (sig, kind, shapes-chunk) work items in a fixed order."""
  sigs = all_signatures(2)
  items = []
  for si, sig in enumerate(sigs):
    _, _, plain = sig_text(sig)
    # a keyword spelled like the *args / **kw parameter is just another
    # unknown keyword for CPython
    star_names = (["args"] if sig[5] else []) + (["kw"] if sig[6] else [])
    shapes = call_shapes(plain, extra_names=star_names)
    for ki, kind in enumerate(KINDS):
      if tier == "quick":
        # stratified: each signature with one kind, a strided slice of shapes
        if (si + ki) % len(KINDS) != 0:
          continue
        sel = shapes[(si % 7)::7][:70] + valid_shapes(sig)[:60]
        items.append((sig, kind, sel))
      else:
        shapes = valid_shapes(sig) + shapes
        for off in range(0, len(shapes), 120):
          items.append((sig, kind, shapes[off:off + 120]))
  return items


def run_shard(ctx):
  items = plan(ctx.tier)
  if ctx.quick():
    items = items[::7]   # coprime with len(KINDS)=11: every kind is drawn
  for i, (sig, kind, shapes) in enumerate(items):
    if i % ctx.nshards != ctx.shard:
      continue
    check_module(ctx, sig, kind, shapes)
  if ctx.shard == 0:
    ctx.extra["work_items_total"] = len(items)
  # Hypothesis: larger signatures (3 of each kind) and longer keyword sets
  from hypothesis import strategies as st

  @st.composite
  def big(draw):
    npo, nreg, nkw = (draw(st.integers(0, 3)) for _ in range(3))
    ndef = draw(st.integers(0, npo + nreg))
    sig = (npo, nreg, nkw, ndef, draw(st.integers(0, (1 << nkw) - 1)),
           draw(st.booleans()), draw(st.booleans()))
    _, _, plain = sig_text(sig)
    names = plain + ["zz"]
    shapes = draw(st.lists(st.tuples(
        st.integers(0, 6),
        st.lists(st.sampled_from(names), max_size=5, unique=True).map(tuple)),
                           min_size=5, max_size=40))
    return sig, draw(st.sampled_from(KINDS)), shapes

  hyp_run(ctx, big(), lambda x: check_module(ctx, *x),
          6 if ctx.quick() else 600, label="big")


def replay(ctx, case):
  shapes = [(n, tuple(k)) for n, k in case["shapes"]]
  check_module(ctx, tuple(case["sig"]), case["kind"], shapes)
