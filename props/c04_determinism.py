"""C04 - analysis output is a pure function of the source and options.

Generated programs (all feature switches, injected errors) are analysed under
several configurations, each in its own worker process: PYTHONHASHSEED values
x {one process for the batch in order, one process in a permuted order with
unrelated analyses interleaved, one reused loader for the whole batch, a fresh
process per program}.  Stub text, error report text and the pickled stub must
be byte-identical across all configurations; every report is sorted by
position and free of duplicates.
"""

import hashlib
import json
import os
import subprocess
import sys

from vlib import boot, gen_py
from vlib.run import Violation, hyp_run

ID = "C04"
RULE = (
    "case = one (program, configuration) analysis compared with the same "
    "program's reference configuration (hash seed 0, batch order); "
    "configurations = 3-4 PYTHONHASHSEED values x {batch, permuted order with "
    "interleaved unrelated analyses, reused loader} plus fresh processes. "
    "Non-trivial = the program's stub has a union or >= 3 classes, or its "
    "report has >= 2 errors (something whose order could vary). distinct = "
    "distinct (source text, configuration).")
ASSUMPTIONS = [
    "hash seed, in-process history and loader reuse are varied; operating "
    "system, locale and C++ standard library are not",
    "the pickled stub is serialize_ast.PrepareForExport + "
    "pickle_utils.Serialize, compared by SHA-256; the compressed forms "
    "(SerializeAndSave(compress=True), Loader.save_to_pickle) are written "
    "under a per-worker frozen time.time() value",
]

def NSHARDS(tier):
  return 8 if tier == "quick" else 16


WORKER = os.path.join(boot.VERIF, "vlib", "c04_worker.py")
ERR_SNIPPETS = [
    # messages / types that list several names (order must not depend on the
    # hash seed)
    "def _kw(a): pass\n_kw(1, zeta=1, alpha=2, mid=3, beta=4)",
    "def _u1(x: 'Union[int, float, str, bytes]', y: 'Optional[Union[bytearray, bytes, str]]' = None): return x",
    "def _u2(x: 'Union[float, complex, int, str, None]') -> 'Union[int, float, str]': return x",
    "def _mp(a, b, c, d): pass\n_mp()",
    "class _Sl:\n  __slots__ = ('zeta', 'alpha', 'mid')\n  def __init__(self):\n    self.zeta = 1\n    self.alpha = 's'\n    self.mid = None",
    "_dd = {'zeta': 1, 'alpha': 's', 'mid': None, 'beta': 2.5}\n_ss = {'zeta', 'alpha', 1, 2.5, None}",
    "def _many(q):\n  if q == 1: return 1\n  if q == 2: return 's'\n  if q == 3: return 2.5\n  if q == 4: return b'b'\n  if q == 5: return None\n  return [q]",
    # several bindings pasted at one node, one error per binding on one line
    "def _wide(a, b, c, d):\n  x = 1 if a else ('s' if b else (None if c else (2.5 if d else b'b')))\n  y = x\n  return y.nonsense",
    "_wa = [1, 's', None, 2.5, b'b', (1,), [1], {1}][0]\n_wb = _wa\n_wb.nonsense",
    # two different errors on one line of a body analysed for several calls
    "def _two(x):\n  return x.foo + x.bar\n_two(1)\n_two('s')\n_two(None)\n_two(2.5)",
    "def _two2(x, y):\n  return (x.foo, y.bar, x.baz)\n_two2(1, 's')\n_two2('s', 1)\n_two2(None, 2.5)",
    "def _dup(x, y):\n  return x.foo + x.bar\n_rd = [_dup(1, 'a'), _dup(1, 2.0)]\n_dup(1, None)\n_dup(1, [1])",
    "def _chain(c):\n  if c == 0:\n    x = 1\n  elif c == 1:\n    x = 's'\n  elif c == 2:\n    x = 2.0\n  elif c == 3:\n    x = b'b'\n  elif c == 4:\n    x = [1]\n  elif c == 5:\n    x = (1,)\n  elif c == 6:\n    x = {1}\n  else:\n    x = None\n  y = x\n  return y.attr0",
    # TypeVars declared in class scope only, one name with different bounds
    "from typing import TypeVar\nclass _IB:\n  T = TypeVar('T', bound=int)\n  def ident(self, x: T) -> T:\n    return x\nclass _SB:\n  T = TypeVar('T', bound=str)\n  def ident(self, x: T) -> T:\n    return x\nclass _BB:\n  T = TypeVar('T', bound=bytes)\n  def ident(self, x: T) -> T:\n    return x",
    # class attributes holding instances of classes that only define __call__
    "class _Hd:\n  def __call__(self, x):\n    return x\nclass _Wg:\n  on_click = _Hd()\n  on_key = _Hd()\n  def fire(self):\n    return self.on_click(1)\n_wg = _Wg().fire()",
    # messages listing several unknown directive names
    "x_dir = 1  # pytype: disable=zeta-error,alpha-error,mid-error,beta-error\n# pytype: features=zeta-feature,alpha-feature,mid-feature\n# pytype: pragma=zeta-pragma,alpha-pragma,mid-pragma",
    "(1).nonsense", "_u = 1 + 's'", "len()", "undefined_zz",
                "_t = ((1).aa, (2).bb)", "_v = ((1).aa, len())",
                "def _br() -> int:\n  return 's'", "_am: int = 's'",
                "def _wt(x: int): pass\n_wt('s')\n_wt(None)"]


def run_worker(job, hashseed, timeout=600):
  env = dict(os.environ, PYTHONHASHSEED=str(hashseed))
  scratch = os.path.join(boot.VERIF, ".run", "C04", "scratch")
  os.makedirs(scratch, exist_ok=True)
  run_worker.count = getattr(run_worker, "count", 0) + 1
  # every worker gets its own frozen wall-clock value
  job = dict(job, scratch=scratch,
             clock=1.7e9 + 1000.0 * hashseed + 61.0 * run_worker.count)
  p = subprocess.run([sys.executable, WORKER], input=json.dumps(job),
                     capture_output=True, text=True, env=env, timeout=timeout)
  line = [l for l in p.stdout.splitlines() if l.startswith("RESULT ")]
  if not line:
    raise RuntimeError("harness: C04 worker failed: %s" % p.stderr[-500:])
  return json.loads(line[-1][7:])


def check_batch(ctx, programs, perm_seed):
  progs = [[str(i), s] for i, s in enumerate(programs)]
  n = len(progs)
  # a fixed, seed-derived permutation and a derived hash seed
  order = sorted(range(n), key=lambda i: hashlib.sha1(
      ("%d/%d" % (perm_seed, i)).encode()).hexdigest())
  derived = 1 + perm_seed % 100000
  noise = ["x = [1, 'a']\nclass N:\n  y = {1: 2.0}\n", "def q(a): return a\n"]
  ref = run_worker({"mode": "batch", "programs": progs}, 0)
  configs = []
  for hs in (1, 4242, derived):
    configs.append(("batch/hashseed=%d" % hs,
                    {"mode": "batch", "programs": progs}, hs))
  configs.append(("perm/hashseed=0",
                  {"mode": "perm", "programs": progs, "order": order,
                   "noise": noise}, 0))
  configs.append(("perm/hashseed=%d" % derived,
                  {"mode": "perm", "programs": progs, "order": order[::-1],
                   "noise": noise}, derived))
  configs.append(("loader/hashseed=0", {"mode": "loader", "programs": progs},
                  0))
  configs.append(("loader/hashseed=4242",
                  {"mode": "loader", "programs": progs, "order": order}, 4242))
  for k in (0, n - 1):
    configs.append(("fresh/hashseed=%d" % (7 + k),
                    {"mode": "batch", "programs": [progs[k]]}, 7 + k))
  # report well-formedness on the reference
  for pid, src in progs:
    r = ref[pid]
    if "crash" in r:
      ctx.event("analysis-raised:" + r["crash"])
      continue
    listed = [tuple(x) for x in r["listed"]]
    keys = [(x[0] or "", x[1] or 0) for x in listed]
    case = {"src": src}
    ctx.check(keys == sorted(keys), "error-report-not-sorted-by-position",
              "%s" % listed[:6], case)
    ctx.check(len(set(listed)) == len(listed), "duplicate-error-in-report",
              "%s" % listed[:6], case)
  for cname, job, hs in configs:
    got = run_worker(job, hs)
    for pid, src in job["programs"]:
      a, b = ref[pid], got.get(pid)
      if b is None or "crash" in a or "crash" in b:
        if (b is not None) and (("crash" in a) != ("crash" in b)):
          ctx.check(False, "analysis-crashes-in-one-configuration-only",
                    "%s: reference %s, %s %s" % (cname, a.get("crash"), cname,
                                                 b.get("crash")),
                    {"src": src, "config": cname})
        continue
      nt = ("Union[" in a["pyi"] or a["pyi"].count("\nclass ") >= 3 or
            a["errors"].count("\n") >= 2)
      ctx.case(key=(src, cname), nontrivial=nt,
               sample=("%s: %d-line program, stub %d bytes, %d error lines" % (
                   cname, src.count("\n"), len(a["pyi"]),
                   a["errors"].count("\n"))) if nt else None,
               classes=["config:" + cname.split("/")[0]])
      case = {"src": src, "config": cname}
      ctx.check(a["pyi"] == b["pyi"], "stub-text-differs:" + cname.split("/")[0],
                "%s: stub text differs from the reference configuration\n%s" %
                (cname, first_diff(a["pyi"], b["pyi"])), case)
      ctx.check(a["errors"] == b["errors"],
                "error-report-differs:" + cname.split("/")[0],
                "%s: error report differs\n%s" % (
                    cname, first_diff(a["errors"], b["errors"])), case)
      ctx.check(a["pickle"] == b["pickle"],
                "pickled-stub-differs:" + cname.split("/")[0],
                "%s: pickled stub bytes differ (%s vs %s)" % (
                    cname, a["pickle"][:12], b["pickle"][:12]), case)
      ctx.check(a.get("gz") == b.get("gz"),
                "compressed-pickled-stub-differs:" + cname.split("/")[0],
                "%s: SerializeAndSave(compress=True) bytes differ (%s vs %s); "
                "hash seed, history and the frozen clock value differ between "
                "the two runs" % (cname, str(a.get("gz"))[:12],
                                  str(b.get("gz"))[:12]), case)
      if a.get("bundle") and b.get("bundle"):
        # same first program, same loader history: the module bundle written
        # by Loader.save_to_pickle must be the same bytes
        ctx.check(a["bundle"] == b["bundle"],
                  "loader-bundle-differs:" + cname.split("/")[0],
                  "%s: save_to_pickle bytes differ" % cname, case)


def first_diff(a, b):
  la, lb = a.splitlines(), b.splitlines()
  for i, (x, y) in enumerate(zip(la, lb)):
    if x != y:
      return "line %d:\n  ref: %s\n  got: %s" % (i + 1, x[:200], y[:200])
  return "lengths %d vs %d lines" % (len(la), len(lb))


def batch_strategy(nprogs):
  from hypothesis import strategies as st

  @st.composite
  def batches(draw):
    out = []
    for _ in range(nprogs):
      cfg = gen_py.Cfg.everything(annotations=0.3, n_stmts=(4, 10))
      p = draw(gen_py.program(cfg))
      stmts = list(p["stmts"])
      for e in draw(st.lists(st.sampled_from(ERR_SNIPPETS), max_size=5,
                             unique=True)):
        stmts.insert(draw(st.integers(0, len(stmts))), e)
      hdr = [h for h in p["header"] if not h.startswith("from typing")]
      out.append("\n".join(["from typing import Optional, Union"] + hdr +
                           stmts) + "\n")
    return out, draw(st.integers(0, 10**6))

  return batches()


def fixed_batch(shard):
  """Every error snippet in a deterministic batch: four programs holding a
  rotation of the snippet list each, so that every shard analyses every
  snippet next to different neighbours."""
  k = len(ERR_SNIPPETS)
  rot = ERR_SNIPPETS[shard % k:] + ERR_SNIPPETS[:shard % k]
  progs = []
  for i in range(4):
    part = rot[i::4]
    progs.append("from typing import Optional, Union\nx0 = 1\n" +
                 "\n".join(part) + "\ny0 = 's'\n")
  return progs


def run_shard(ctx):
  boot.ensure()
  check_batch(ctx, fixed_batch(ctx.shard), 1000 + ctx.shard)
  # (Hypothesis' very first example is the all-minimal one, so never 1)
  n = 2 if ctx.quick() else 12
  hyp_run(ctx, batch_strategy(4 if ctx.quick() else 14),
          lambda x: check_batch(ctx, x[0], x[1]), n, label="B", shrink=False)


def replay(ctx, case):
  check_batch(ctx, [case["src"], "x = 1\n"], 1)
