"""C16 - every compiled code object becomes a well-formed ordered block graph.

Domain: every code object (module, functions, lambdas, comprehensions, class
bodies, generators, async) of generated programs, of token mutants that still
compile, and of the CPython standard library sources.
Oracle: structural invariants over OrderedCode.order (the stream the VM
analyses), written from the property statement.
"""

import glob
import os
import sys

from vlib import boot, gen_py, mutate_src
from vlib.run import Violation, hyp_run

ID = "C16"
RULE = (
    "case = one code object (module / function / lambda / comprehension / "
    "class body / generator / coroutine) after pyc.compile_src + "
    "blocks.process_code, checked against the block-graph invariants. "
    "Non-trivial = the code object has an exception-table entry (a "
    "SETUP_EXCEPT_311 / POP_BLOCK pseudo op), or a SEND (await / yield from / "
    "async for), or >= 4 blocks. distinct = distinct (source text, qualified "
    "name, first line).")
ASSUMPTIONS = [
    "sources are compiled for Python 3.12 by pytype's own pyc.compile_src "
    "(host CPython 3.12.1)",
    "'only the last instruction of a block may jump' is NOT asserted: the "
    "property does not state it and the 3.12 SEND surgery keeps "
    "JUMP_BACKWARD_NO_INTERRUPT inside a merged block by design",
]

STDLIB = os.path.join(sys.base_prefix, "lib", "python3.12")


def _mods():
  boot.ensure()
  from pytype.blocks import blocks
  from pytype.pyc import pyc
  return blocks, pyc


def all_codes(oc):
  blocks, _ = _mods()
  yield oc
  for c in oc.consts:
    if isinstance(c, blocks.OrderedCode):
      yield from all_codes(c)


def check_code(oc):
  """Returns a list of (signature, detail)."""
  bad = []
  order = oc.order
  if not order:
    return [("empty-order", "no blocks")]
  ids = [b.id for b in order]
  if len(set(ids)) != len(ids):
    bad.append(("duplicate-block-id", str(ids)))
  if len(set(map(id, order))) != len(order):
    bad.append(("block-listed-twice", str(ids)))
  seen_ops = {}
  first_ops = {}
  for b in order:
    if not b.code:
      bad.append(("empty-block", "block %s" % b.id))
      continue
    if b.id != b.code[0].index:
      bad.append(("block-id-not-first-index", "block %s first op index %s" %
                  (b.id, b.code[0].index)))
    first_ops[id(b.code[0])] = b
    for i, op in enumerate(b.code):
      if id(op) in seen_ops:
        bad.append(("instruction-in-two-blocks", "%s@%d" % (op.name, op.index)))
      seen_ops[id(op)] = (b, i)
      if i > 0 and b.code[i - 1].index >= op.index:
        bad.append(("index-not-increasing", "block %s: %d then %d" %
                    (b.id, b.code[i - 1].index, op.index)))
  # code_iter is the same stream
  stream = list(oc.code_iter)
  if [id(o) for o in stream] != [id(o) for b in order for o in b.code]:
    bad.append(("code_iter-differs-from-order", ""))
  for b in order:
    nb = len(b.code)
    for i, op in enumerate(b.code):
      pos = "first" if i == 0 else ("last" if i == nb - 1 else "mid")
      if nb == 1:
        pos = "only"
      for attr in ("target", "block_target"):
        t = getattr(op, attr, None)
        if t is not None and id(t) not in first_ops:
          where = "mid-block" if id(t) in seen_ops else "dropped-block"
          bad.append(("%s-not-a-block-start:%s:%s-in-block:to-%s" % (
              attr, op.name, pos, where),
                      "%s@%d (%s op of block %s) -> %s@%d" % (
                          op.name, op.index, pos, b.id, t.name, t.index)))
      if (i < nb - 1 and op.no_next() and
          op.name != "JUMP_BACKWARD_NO_INTERRUPT"):
        # a *basic* block is straight-line: nothing can follow an
        # instruction that never falls through (return / raise / reraise /
        # unconditional jump).  The one documented exception is the
        # JUMP_BACKWARD_NO_INTERRUPT kept inside merged SEND blocks.
        bad.append(("instruction-after-non-fallthrough-op-in-block:" + op.name,
                    "%s@%d is followed by %s@%d in block %s" % (
                        op.name, op.index, b.code[i + 1].name,
                        b.code[i + 1].index, b.id)))
      if op.has_known_jump() and op.target is None:
        bad.append(("unresolved-jump:" + op.name, "%s@%d" % (op.name,
                                                              op.index)))
      if (op.next is not None and id(op.next) in seen_ops and
          op.next.prev is not op):
        bad.append(("next-prev-mismatch", "%s@%d" % (op.name, op.index)))
  pos = {id(b): i for i, b in enumerate(order)}
  if order[0].id != min(ids):
    bad.append(("entry-not-lowest-index", str(ids[:5])))
  reach = set()
  st = [order[0]]
  while st:
    b = st.pop()
    if id(b) in reach:
      continue
    reach.add(id(b))
    st.extend(b.outgoing)
  if reach != set(pos):
    bad.append(("order-not-equal-reachable",
                "%d reachable, %d listed" % (len(reach), len(pos))))
  for b in order[1:]:
    if not any(id(p) in pos and pos[id(p)] < pos[id(b)] for p in b.incoming):
      bad.append(("no-predecessor-before-block", "block %s" % b.id))
  for b in order:
    for o in b.outgoing:
      if b not in o.incoming:
        bad.append(("edge-not-symmetric", "%s -> %s" % (b.id, o.id)))
    for o in b.incoming:
      if b not in o.outgoing:
        bad.append(("edge-not-symmetric", "%s <- %s" % (b.id, o.id)))
  return bad


def nontrivial(oc):
  names = {op.name for b in oc.order for op in b.code}
  return (len(oc.order) >= 4 or "SEND" in names or
          any(n.startswith("SETUP_") or n == "POP_BLOCK" for n in names))


def dump(oc, limit=60):
  out = []
  for blk in oc.order:
    out.append(" block %s in=%s out=%s" % (
        blk.id, sorted(x.id for x in blk.incoming),
        sorted(x.id for x in blk.outgoing)))
    for op in blk.code:
      out.append("   %d L%s %s%s%s" % (
          op.index, op.line, op.name,
          (" -> %d" % op.target.index) if op.target else "",
          (" bt %d" % op.block_target.index)
          if getattr(op, "block_target", None) else ""))
  return "\n".join(out[:limit])


def check_source(ctx, src, label, case, filename="m.py"):
  blocks, pyc = _mods()
  try:
    compile(src, filename, "exec", dont_inherit=True)
  except (SyntaxError, ValueError, OverflowError, RecursionError,
          MemoryError):
    ctx.event(label + ":does-not-compile")
    return
  try:
    code = pyc.compile_src(src, filename, (3, 12), None)
    oc, _ = blocks.process_code(code)
  except Exception as e:  # pylint: disable=broad-except
    import traceback
    tb = traceback.format_exc()
    frames = [l for l in tb.splitlines() if "/pytype/" in l and 'File "' in l]
    where = frames[-1].rsplit(" in ", 1)[-1].strip() if frames else "?"
    ctx.check(False, "process_code-raises:%s@%s" % (type(e).__name__, where),
              "%s\n%s" % (tb[-800:], src[:600]), case)
    return
  for c in all_codes(oc):
    nt = nontrivial(c)
    ctx.case(key=(src, c.qualname, c.firstlineno), nontrivial=nt,
             sample=("%s: code object %s (line %d, %d blocks)" % (
                 label, c.qualname, c.firstlineno, len(c.order)))
             if nt else None, classes=[label + ":code-objects"])
    for sig, detail in check_code(c):
      ctx.check(False, sig, "%s: code object %s line %d: %s\n%s" % (
          label, c.qualname, c.firstlineno, detail, dump(c)),
                dict(case, qualname=c.qualname))


def part_generated(ctx, n):
  cfg = gen_py.Cfg.everything(annotations=0.1, n_stmts=(4, 14))

  def body(p):
    src = gen_py.render(p)
    check_source(ctx, src, "G", {"kind": "src", "src": src})

  hyp_run(ctx, gen_py.program(cfg), body, n, label="G")


def part_mutants(ctx, n):
  from hypothesis import strategies as st
  cfg = gen_py.Cfg.everything(n_stmts=(3, 8))

  def body(x):
    p, plan = x
    src = mutate_src.apply_plan(gen_py.render(p), plan)
    if "\x00" in src:
      return
    check_source(ctx, src, "M", {"kind": "src", "src": src})

  hyp_run(ctx, st.tuples(gen_py.program(cfg), mutate_src.mutation_plan(2)),
          body, n, label="M")


FIXED = [
    "try:\n  while True:\n    x = 1\nexcept KeyError:\n  pass\n",
    "async def f(s):\n  try:\n    await s\n  except E:\n    pass\n",
    "def f():\n  try:\n    return 1\n  finally:\n    g()\n",
    "def f(x):\n  with a() as b, c() as d:\n    while x:\n      try:\n"
    "        if x: break\n        else: continue\n      finally:\n        x -= 1\n",
    "def f(x):\n  match x:\n    case [1, *r] if r: return r\n    case {'k': v}: return v\n"
    "    case C(a=1) | C(b=2): return 0\n  return None\n",
    "async def f(x):\n  async with x as y:\n    async for z in y:\n      yield z\n",
    "def f():\n  for i in a:\n    for j in b:\n      if i: break\n    else:\n      continue\n    break\n",
    "def f():\n  try:\n    try:\n      x()\n    except A:\n      raise\n    finally:\n      y()\n"
    "  except* B:\n    z()\n",
    "x = [i for i in range(3) if i for j in range(i)]\ny = {k: v for k, v in z}\n",
    "def f():\n  x = yield from g()\n  return (yield x)\n",
    "lambda: (yield)\n",
    "class A:\n  def f(self):\n    return super().f()\n  x = [q for q in range(3)]\n",
    # generators / coroutines without any control flow
    "def g():\n  yield 1\n", "async def c():\n  return 1\n",
    "async def ag():\n  yield 1\n", "def g2(x):\n  y = yield x\n  return y\n",
    "async def c2(x):\n  await x\n",
    # handlers that bind the exception, end in an if, and have a finally
    "def f(x):\n  try:\n    g()\n  except E as e:\n    if x:\n      h(e)\n  finally:\n    k()\n",
    "def f(x):\n  try:\n    return g()\n  except (A, B) as e:\n    if x:\n      return e\n  finally:\n    k()\n  return 0\n",
    "def f(x):\n  for i in x:\n    try:\n      g(i)\n    except E as e:\n      if i:\n        continue\n    finally:\n      k()\n",
    "async def f(a, b):\n  async for x in a:\n    pass\n  async for y in b:\n    pass\n",
    "def f(x):\n  try:\n    pass\n  except A:\n    pass\n  except B as e:\n    raise\n  else:\n    return 1\n  finally:\n    pass\n",
    "def f(x):\n  with a as b:\n    try:\n      return b\n    except E as e:\n      if x: raise\n",
    "def f():\n  while True:\n    try:\n      break\n    except E as e:\n      if e: continue\n    finally:\n      pass\n",
]


def part_fixed(ctx):
  for i, src in enumerate(FIXED):
    if i % ctx.nshards == ctx.shard:
      check_source(ctx, src, "F", {"kind": "src", "src": src})


TRY_BODIES = ["return G", "return x", "return 1", "return x.a", "return x[0]",
              "return -x", "return x()", "return (x, G)", "x", "G", "x.a", "x()",
              "pass", "raise", "raise E", "y = G", "y = x.a", "del x", "x += 1",
              "yield x", "return (yield)", "await x", "return await x",
              "import m", "assert x", "break", "continue",
              "G.a = x", "x[0] = G", "return G if x else 1"]
TRY_HANDLERS = ["except E:\n{i}  return None",
                "except E as e:\n{i}  return e",
                "except:\n{i}  pass",
                "finally:\n{i}  G()",
                "except E:\n{i}  pass\n{i}else:\n{i}  return 2",
                "except E:\n{i}  raise\n{i}finally:\n{i}  G()",
                "except* E:\n{i}  pass",
                "except (A, B) as e:\n{i}  del e"]
TRY_CONTEXTS = ["def f(x):\n{b}",
                "async def f(x):\n{b}",
                "def f(x):\n  for x in G:\n{b2}",
                "def f(x):\n  with G as x:\n{b2}",
                "def f(x):\n  while x:\n{b2}\n  return x",
                "class K:\n  def m(self, x):\n{b2}"]


def part_small_try(ctx):
  """Every small try statement: a one-statement body (single instruction or
  not) x handler shape x surrounding construct."""
  k = 0
  for ctxt in TRY_CONTEXTS:
    for body in TRY_BODIES:
      for h in TRY_HANDLERS:
        k += 1
        if k % ctx.nshards != ctx.shard:
          continue
        deep = "{b2}" in ctxt
        ind = "    " if deep else "  "
        block = "%stry:\n%s  %s\n%s%s" % (ind, ind, body, ind,
                                          h.replace("{i}", ind))
        src = ctxt.replace("{b2}" if deep else "{b}", block) + "\n"
        check_source(ctx, src, "T", {"kind": "src", "src": src})


def corpus(limit, max_bytes):
  files = sorted(glob.glob(os.path.join(STDLIB, "**", "*.py"), recursive=True))
  files = [f for f in files if "/test/" not in f and "/tests/" not in f and
           "site-packages" not in f and "lib2to3" not in f and
           "/idlelib/" not in f]
  out = []
  for f in files:
    try:
      if os.path.getsize(f) <= max_bytes:
        out.append(f)
    except OSError:
      pass
  return out[:limit]


def part_corpus(ctx, limit, max_bytes):
  for i, path in enumerate(corpus(limit, max_bytes)):
    if i % ctx.nshards != ctx.shard:
      continue
    try:
      with open(path, encoding="utf-8") as f:
        src = f.read()
    except (OSError, UnicodeDecodeError):
      continue
    check_source(ctx, src, "S", {"kind": "file", "path": path},
                 filename=path)


def run_shard(ctx):
  boot.ensure()
  sys.setrecursionlimit(10000)
  part_fixed(ctx)
  part_small_try(ctx)
  if ctx.quick():
    part_generated(ctx, 60)
    part_mutants(ctx, 60)
    part_corpus(ctx, 64, 40000)
  else:
    part_generated(ctx, 4000)
    part_mutants(ctx, 4000)
    part_corpus(ctx, 100000, 10**7)


def replay(ctx, case):
  if case.get("kind") == "file":
    with open(case["path"], encoding="utf-8") as f:
      check_source(ctx, f.read(), "S", case, filename=case["path"])
  else:
    check_source(ctx, case["src"], "replay", case)


def confirm_known(entry):
  from vlib.run import Ctx
  c = Ctx(ID, "quick", 0, 0, 1, [])
  src = entry["input"]["src"]
  try:
    check_source(c, src, "known", {"kind": "src", "src": src})
  except Violation as v:
    return v.signature == entry["signature"]
  return False
