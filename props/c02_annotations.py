"""C02 - annotations are enforced exactly: error iff the value is outside the
annotated type.

Exhaustive cross product (annotation grammar to depth 2) x (ground value
expressions) x (argument, return, annotated assignment), many pairs per
analysed module, one pair per line.  Oracle: an independent run-time
membership test written from PEP 484, evaluated on the evaluated value.
"""

import itertools

from vlib import an, boot
from vlib.run import Violation, hyp_run

ID = "C02"
RULE = (
    "case = one (annotation, ground value, site) triple; the value expression "
    "is evaluated under CPython and tested for membership in the annotation "
    "by an independent PEP 484 checker; pytype must report "
    "wrong-arg-types / bad-return-type / annotation-type-mismatch on that "
    "line iff it is not a member. Non-trivial = the verdict is not decided by "
    "comparing the outer classes alone (promotion int->float->complex, "
    "bool<int, subclassing, Optional/Union, element types, tuple arity, "
    "read-only views, Type[C], callables). distinct = distinct triple.")
ASSUMPTIONS = [
    "documented pytype leniency is outside the domain: str against "
    "Iterable/Sequence/Collection[str] (docs/faq.md); an argument whose "
    "inferred type contains a union is accepted if one combination matches "
    "(docs/faq.md), so for heterogeneous containers at the argument site only "
    "'no error on a member' is asserted",
    "Type[float] against int, and callables other than plain lambdas, are "
    "excluded (PEP 484 is not explicit)",
    "containers are compared element-wise (value membership), i.e. "
    "covariantly, as the property states for read-only views",
]

PRELUDE = '''from typing import (Any, Callable, Collection, Dict, FrozenSet, Iterable,
                    List, Mapping, Optional, Sequence, Set, Tuple, Type, Union)
class B: pass
class D(B): pass
class E: pass
'''

ATOMS = ["int", "float", "complex", "bool", "str", "bytes", "None", "object",
         "Any", "B", "D", "E"]


def render(a):
  k = a[0]
  if k in ATOMS:
    return k
  if k in ("List", "Set", "FrozenSet", "Sequence", "Iterable", "Collection",
           "Optional"):
    return "%s[%s]" % (k, render(a[1]))
  if k == "Type":
    return "Type[%s]" % render(a[1])
  if k in ("Dict", "Mapping"):
    return "%s[%s, %s]" % (k, render(a[1]), render(a[2]))
  if k == "Tuple*":
    return "Tuple[%s, ...]" % render(a[1])
  if k == "Tuple":
    return "Tuple[%s]" % ", ".join(render(x) for x in a[1:])
  if k == "Union":
    return "Union[%s]" % ", ".join(render(x) for x in a[1:])
  if k == "Callable":
    return "Callable[[%s], %s]" % (", ".join(["Any"] * a[1]), render(a[2]))
  raise AssertionError(a)


def annotations(deep):
  at = [(x,) for x in ATOMS]
  out = list(at)
  for c in ("List", "Set", "FrozenSet", "Sequence", "Iterable", "Collection",
            "Optional", "Tuple*"):
    for t in at:
      if c == "Optional" and t[0] in ("None", "Any", "object"):
        continue
      out.append((c, t))
  for c in ("Dict", "Mapping"):
    for k in (("str",), ("int",)):
      for v in at:
        out.append((c, k, v))
  small = [("int",), ("str",), ("float",), ("B",), ("D",), ("None",)]
  for a, b in itertools.product(small, repeat=2):
    out.append(("Tuple", a, b))
  out.append(("Tuple", ("int",)))
  out.append(("Tuple", ("int",), ("str",), ("float",)))
  for a, b in itertools.combinations(at, 2):
    if "Any" in (a[0], b[0]) or "object" in (a[0], b[0]):
      continue
    out.append(("Union", a, b))
  for c in ("int", "str", "B", "D", "E", "object", "bool"):
    out.append(("Type", (c,)))
  for n in range(3):
    for r in (("int",), ("Any",)):
      out.append(("Callable", n, r))
  if deep:
    d1 = [("List", ("int",)), ("List", ("str",)), ("Optional", ("int",)),
          ("Tuple", ("int",), ("str",)), ("Dict", ("str",), ("int",)),
          ("Union", ("int",), ("str",)), ("Tuple*", ("int",)), ("Set", ("int",)),
          ("Sequence", ("float",)), ("List", ("B",))]
    for c in ("List", "Sequence", "Iterable", "Optional", "Tuple*", "Set",
              "FrozenSet"):
      for t in d1:
        if c in ("Set", "FrozenSet") and t[0] in ("List", "Dict", "Set"):
          continue
        if c == "Optional" and t[0] == "Optional":
          continue
        out.append((c, t))
    # unions whose members are parameterisations of one class: a value that
    # fails the first member may still conform to a later one
    same = [[("List", ("int",)), ("List", ("str",))],
            [("List", ("str",)), ("List", ("int",)), ("List", ("B",))],
            [("Tuple", ("int",), ("int",)), ("Tuple*", ("int",))],
            [("Tuple", ("int",), ("str",)), ("Tuple", ("str",), ("int",))],
            [("Tuple", ("int",)), ("Tuple", ("int",), ("str",))],
            [("Dict", ("str",), ("int",)), ("Dict", ("int",), ("str",))],
            [("Set", ("int",)), ("Set", ("str",))],
            [("Type", ("B",)), ("Type", ("int",))],
            [("Type", ("int",)), ("Type", ("str",)), ("Type", ("E",))],
            [("Sequence", ("int",)), ("Sequence", ("str",))],
            [("Optional", ("int",)), ("List", ("int",)), ("List", ("None",))]]
    for members in same:
      out.append(("Union",) + tuple(members))
      out.append(("Union",) + tuple(reversed(members)))
    for t in d1:
      out.append(("Dict", ("str",), t))
      out.append(("Mapping", ("str",), t))
      out.append(("Union", ("None",), t))
      out.append(("Union", ("bytes",), t))
      out.append(("Tuple", t, ("int",)))
  return out


VALUES = [
    "1", "0", "1.5", "2j", "True", "'s'", "''", "b'b'", "None", "B()", "D()",
    "E()", "object()",
    "[]", "[1]", "['a']", "[1.5]", "[True]", "[D()]", "[B()]", "[None]",
    "[1, 'a']", "[1, 1.5]", "[D(), B()]", "[1, None]", "[[1]]", "[['a']]",
    "[(1, 'a')]",
    "()", "(1,)", "(1, 'a')", "(1, 2)", "('a', 1)", "(1.5, 'a')", "(D(), 1)",
    "(1, 'a', 1.5)", "(None, None)", "((1,),)", "([1], 1)",
    # containers of containers: a conforming element before an offending one
    "([1], ['a'])", "(['a'], [1])", "[[1], ['a']]", "([1], [2])",
    "({1}, {'a'})", "[(1, 'a'), ('a', 1)]", "((1, 'a'), (2, 'b'))",
    "[{'a': 1}, {'a': 's'}]", "((1,), (1, 2))",
    "set()", "{1}", "{'a'}", "{1, 'a'}", "frozenset()", "frozenset([1])",
    "{}", "{'a': 1}", "{1: 'a'}", "{'a': 'b'}", "{'a': D()}", "{'a': [1]}",
    "{'a': 1, 'b': 'c'}", "{'a': None}",
    "int", "str", "bool", "B", "D", "E",
    "(lambda: 1)", "(lambda x: x)", "(lambda x, y: x)",
]
HETEROGENEOUS = {"[1, 'a']", "[1, 1.5]", "[D(), B()]", "[1, None]", "{1, 'a'}",
                 "{'a': 1, 'b': 'c'}", "[[1], ['a']]", "[(1, 'a'), ('a', 1)]",
                 "[{'a': 1}, {'a': 's'}]"}


def member(v, a, ns):
  """PEP 484 value membership.  Returns True/False, or None = outside the
  domain (pair excluded)."""
  k = a[0]
  B, D, E = ns["B"], ns["D"], ns["E"]
  if k in ("Any", "object"):
    return True
  if k == "None":
    return v is None
  if k == "int":
    return isinstance(v, int)
  if k == "float":
    return isinstance(v, (int, float))
  if k == "complex":
    return isinstance(v, (int, float, complex))
  if k == "bool":
    if v is None:
      # pytype lets None match bool unless --none-is-not-bool is given
      # (config.py): documented, configurable leniency -> outside the domain
      return None
    return isinstance(v, bool)
  if k == "str":
    return isinstance(v, str)
  if k == "bytes":
    return isinstance(v, bytes)
  if k in ("B", "D", "E"):
    return isinstance(v, ns[k])
  if k == "Optional":
    if v is None:
      return True
    return member(v, a[1], ns)
  if k == "Union":
    rs = [member(v, x, ns) for x in a[1:]]
    if any(r is True for r in rs):
      return True
    if any(r is None for r in rs):
      return None
    return False

  def all_members(items, t):
    rs = [member(x, t, ns) for x in items]
    if any(r is False for r in rs):
      return False
    if any(r is None for r in rs):
      return None
    return True

  if k == "List":
    return isinstance(v, list) and all_members(v, a[1])
  if k == "Set":
    return isinstance(v, set) and all_members(v, a[1])
  if k == "FrozenSet":
    return isinstance(v, frozenset) and all_members(v, a[1])
  if k == "Dict" or k == "Mapping":
    if not isinstance(v, dict):
      return False
    r1 = all_members(list(v.keys()), a[1])
    r2 = all_members(list(v.values()), a[2])
    if r1 is False or r2 is False:
      return False
    if r1 is None or r2 is None:
      return None
    return True
  if k == "Tuple*":
    return isinstance(v, tuple) and all_members(v, a[1])
  if k == "Tuple":
    if not isinstance(v, tuple) or len(v) != len(a) - 1:
      return False
    rs = [member(x, t, ns) for x, t in zip(v, a[1:])]
    if any(r is False for r in rs):
      return False
    return None if any(r is None for r in rs) else True
  if k in ("Sequence", "Iterable", "Collection"):
    if isinstance(v, str):
      # documented: str does not match string iterables; other element types
      # cannot match either (its elements are str)
      r = member("x", a[1], ns)
      return False if r is False else None
    if isinstance(v, bytes):
      return member(98, a[1], ns)
    seq = (list, tuple)
    itr = (list, tuple, set, frozenset, dict)
    ok_types = seq if k == "Sequence" else itr
    if not isinstance(v, ok_types):
      return False
    return all_members(list(v), a[1])
  if k == "Type":
    if not isinstance(v, type):
      return False
    c = a[1][0]
    target = {"int": int, "str": str, "bool": bool, "object": object,
              "B": B, "D": D, "E": E}[c]
    return issubclass(v, target)
  if k == "Callable":
    if isinstance(v, type):
      return None            # class objects as callables: excluded
    if not callable(v):
      return False
    import inspect
    n = len(inspect.signature(v).parameters)
    if n != a[1]:
      return False
    return True              # unannotated lambda: result unknown -> accepted
  raise AssertionError(a)


def outer_class_guess(v, a):
  """The naive 'same outer class' verdict (for the non-triviality rule)."""
  k = a[0]
  m = {"int": int, "float": float, "complex": complex, "bool": bool,
       "str": str, "bytes": bytes, "List": list, "Set": set,
       "FrozenSet": frozenset, "Dict": dict, "Tuple": tuple, "Tuple*": tuple}
  if k in m:
    return type(v) is m[k]
  return None


ERR = {"arg": "wrong-arg-types", "ret": "bad-return-type",
       "asg": "annotation-type-mismatch", "argkw": "wrong-arg-types",
       "argstar": "wrong-arg-types", "argdstar": "wrong-arg-types",
       "argmeth": "wrong-arg-types"}
# argument-site variants: keyword-only parameter, *args, **kwargs (functions
# none of whose positional parameters is annotated) and a method parameter
ARG_VARIANTS = {
    "arg": ("def %s(x: %s): pass", "%s(%s)"),
    "argkw": ("def %s(*, key: %s): pass", "%s(key=%s)"),
    "argstar": ("def %s(*args: %s): pass", "%s(%s)"),
    "argdstar": ("def %s(**kw: %s): pass", "%s(k=%s)"),
    "argmeth": ("class %s:\n  def m(self, a, x: %s): pass", "%s().m(0, %s)"),
}


def check_module(ctx, rows):
  """rows: list of (site, annotation tree, value text)."""
  lines = PRELUDE.rstrip("\n").split("\n")
  meta = []
  fn_for = {}
  for site, a, v in rows:
    at = render(a)
    if site in ARG_VARIANTS:
      if (site, at) not in fn_for:
        fn_for[(site, at)] = "a%d" % len(fn_for)
        lines += (ARG_VARIANTS[site][0] % (fn_for[(site, at)], at)).split("\n")
  for i, (site, a, v) in enumerate(rows):
    at = render(a)
    if site in ARG_VARIANTS:
      lines.append(ARG_VARIANTS[site][1] % (fn_for[(site, at)], v))
    elif site == "ret":
      lines.append("def r%d() -> %s: return %s" % (i, at, v))
    else:
      lines.append("v%d: %s = %s" % (i, at, v))
    meta.append(len(lines))
  src = "\n".join(lines) + "\n"
  try:
    r = an.infer(src)
  except Exception as e:  # pylint: disable=broad-except
    ctx.event("analysis-raised:" + type(e).__name__)
    return
  errs = {}
  for name, line, msg in r.errors:
    errs.setdefault(line, []).append(name)
  ns = {}
  exec(compile(PRELUDE, "p.py", "exec"), ns)  # pylint: disable=exec-used
  for (site, a, vtext), line in zip(rows, meta):
    v = eval(vtext, ns)  # pylint: disable=eval-used
    m = member(v, a, ns)
    got = errs.get(line, [])
    flagged = ERR[site] in got
    other = [e for e in got if e != ERR[site]]
    at = render(a)
    if site == "asg" and v is None:
      # `x: T = None` is accepted for every T by design (context.py
      # check_annotation_type_mismatch(allow_none=True): "An annotated
      # assignment, e.g., x: int = None")
      m = None
    if m is None:
      ctx.case(key=(site, at, vtext), nontrivial=False,
               classes=["excluded:outside-domain"])
      continue
    if other:
      ctx.event("other-error-on-line:" + other[0])
    guess = outer_class_guess(v, a)
    nontriv = guess is None or guess != m
    ctx.case(key=(site, at, vtext), nontrivial=nontriv,
             sample=("%s site: %s <- %s : member=%s, pytype %s" % (
                 site, at, vtext, m, "reports " + ERR[site] if flagged
                 else "accepts")) if nontriv and line % 97 == 0 else None,
             classes=["site:" + site, "member:%s" % m])
    case = {"site": site, "ann": list_tree(a), "value": vtext}
    shape = a[0] if a[0] not in ATOMS else "atom"
    if m and flagged:
      ctx.check(False, "conforming-value-rejected:%s:%s" % (site, shape),
                "%s site: value %s IS a member of %s but pytype reports %s" %
                (site, vtext, at, ERR[site]), case)
    if not m and not flagged:
      if site in ARG_VARIANTS and vtext in HETEROGENEOUS:
        ctx.event("excluded:union-typed-argument-leniency")
        continue
      sig = "violation-missed:%s:%s" % (site, shape)
      if shape == "Union" and isinstance(v, (list, tuple, set, frozenset,
                                             dict)):
        heads = [x[0] for x in a[1:] if len(x) > 1]
        items = list(v.values()) if isinstance(v, dict) else list(v)
        if (len(heads) != len(set(heads)) and
            len({type(x) for x in items}) > 1):
          # root cause bucket: the value is matched once per combination of
          # its element bindings and each combination fits a different
          # parameterisation of the same class
          sig = ("violation-missed:same-class-union-matched-per-element-"
                 "combination")
      if isinstance(v, type) and shape in ("Iterable", "Sequence",
                                           "Collection", "Mapping"):
        # root cause bucket: a class object returned / passed where a
        # protocol is expected is reported or not depending on what the same
        # module matched earlier (see known_findings.json)
        sig = "violation-missed:class-object-against-protocol:depends-on-earlier-matches"
      if shape == "Collection" and isinstance(v, (list, tuple, set, frozenset,
                                                  dict)):
        sig = "violation-missed:Collection-element-type-not-enforced"
      ctx.check(False, sig,
                "%s site: value %s is NOT a member of %s but pytype reports "
                "nothing" % (site, vtext, at), case)


def list_tree(a):
  return [list_tree(x) if isinstance(x, tuple) else x for x in a]


def tuple_tree(a):
  return tuple(tuple_tree(x) if isinstance(x, list) else x for x in a)


def all_rows(deep):
  rows = []
  anns = annotations(deep)
  for a in anns:
    for site in ("arg", "ret", "asg"):
      for v in VALUES:
        rows.append((site, a, v))
  # the argument-site variants on a representative slice of annotations
  for i, a in enumerate(anns):
    site = ("argkw", "argstar", "argdstar", "argmeth")[i % 4]
    for v in VALUES:
      rows.append((site, a, v))
  return rows


def run_shard(ctx):
  boot.ensure()
  rows = all_rows(deep=True)
  if ctx.quick():
    rows = rows[ctx.seed % 9::9]
  per = 330
  chunks = [rows[i:i + per] for i in range(0, len(rows), per)]
  for i, ch in enumerate(chunks):
    if i % ctx.nshards == ctx.shard:
      check_module(ctx, ch)
  if ctx.shard == 0:
    ctx.extra["grid_triples_total"] = len(all_rows(True))
  ctx.extra["exhaustive"] = not ctx.quick()


def replay(ctx, case):
  if "chunk_start" in case:
    # the recorded finding needs the rows that were analysed in the same
    # module: a fixed slice of the grid
    rows = all_rows(deep=True)
    check_module(ctx, rows[case["chunk_start"]:case["chunk_start"] + 330])
    return
  check_module(ctx, [(case["site"], tuple_tree(case["ann"]), case["value"])])


def confirm_known(entry):
  from vlib.run import Ctx
  c = Ctx(ID, "quick", 0, 0, 1, [])
  try:
    replay(c, entry["input"])
  except Violation as v:
    return v.signature == entry["signature"]
  return False
