"""C10 - class linearisation agrees with CPython's MRO.

Hierarchies of up to 8 classes with up to 3 bases each, chosen from earlier
classes and `object` in any order (diamonds, inconsistent orders, repeated
bases).  CPython's type() is the oracle.
(S) as a source program: [mro-error] on a class statement <=> CPython refuses
    to create the class; for every attribute read through a class or an
    instance, the stub names the defining class CPython finds first.
(P) as stub classes: mro.GetBasesInMRO == C.__mro__[1:], MROError <=> TypeError.
"""

import itertools

from vlib import an, boot, pt
from vlib.run import Violation, hyp_run

ID = "C10"
RULE = (
    "case = one class hierarchy (list of classes, each with an ordered list of "
    "bases drawn from earlier accepted classes and `object`, and a subset of "
    "three attribute names), checked through a source program (S) or through "
    "stub classes (P) against CPython's type(). Non-trivial = the hierarchy "
    "contains a diamond, or a class whose C3 order differs from depth-first "
    "left-to-right order, or a class CPython refuses. distinct = distinct "
    "hierarchy spec and route.")
ASSUMPTIONS = [
    "CPython 3.12 type(name, bases, ns) decides legality and attribute "
    "resolution order",
    "classes deriving from a refused class are not generated (the refused "
    "class does not exist at run time)",
]

ATTRS = ["x", "y", "z"]


def build(spec):
  """spec: list of (bases, attrs) with bases = list of ints (index of an
  earlier *accepted* class) or -1 for object.  Returns per-class info with
  CPython's verdict.  Later classes refer to accepted classes by position in
  the accepted list."""
  accepted = []    # (name, python class)
  infos = []
  for k, (bases, attrs) in enumerate(spec):
    name = "C%d" % k
    bnames, bobjs = [], []
    for b in bases:
      if b == -1 or not accepted:
        bnames.append("object")
        bobjs.append(object)
      else:
        n, o = accepted[b % len(accepted)]
        bnames.append(n)
        bobjs.append(o)
    ns = {}
    for a in attrs:
      marker = type("K%d_%s" % (k, a), (), {})
      ns[a] = marker()
    try:
      cls = type(name, tuple(bobjs), ns)
      ok = True
      err = None
    except TypeError as e:
      cls = None
      ok = False
      err = str(e)
    info = {"name": name, "bases": bnames, "attrs": list(attrs), "ok": ok,
            "err": err, "cls": cls}
    infos.append(info)
    if ok:
      accepted.append((name, cls))
  return infos


def features(infos):
  feats = set()
  for i in infos:
    if not i["ok"]:
      feats.add("refused")
      if len(set(i["bases"])) < len(i["bases"]):
        feats.add("duplicate-base")
      continue
    mro = [c.__name__ for c in i["cls"].__mro__]
    # depth-first left-to-right (old-style) order for comparison
    seen, dfs = set(), []

    def walk(c):
      if c.__name__ in seen:
        return
      seen.add(c.__name__)
      dfs.append(c.__name__)
      for b in c.__bases__:
        walk(b)

    walk(i["cls"])
    if dfs != mro:
      feats.add("c3-differs-from-dfs")
    if len(i["cls"].__bases__) >= 2:
      anc = [set(b.__mro__) - {object} for b in i["cls"].__bases__]
      if any(a & b for a, b in itertools.combinations(anc, 2)):
        feats.add("diamond")
  return feats


def source_of(infos):
  lines = []
  class_line = {}
  for k, i in enumerate(infos):
    for a in i["attrs"]:
      lines.append("class K%d_%s: pass" % (k, a))
  for i in infos:
    class_line[i["name"]] = len(lines) + 1
    lines.append("class %s(%s):" % (i["name"], ", ".join(i["bases"]))
                 if i["bases"] else "class %s:" % i["name"])
    body = ["  %s = K%s_%s()" % (a, i["name"][1:], a) for a in i["attrs"]]
    if i["ok"] and i["bases"]:
      for a in ATTRS:
        body.append("  def sup_%s_%s(self): return super().%s" % (
            i["name"], a, a))
    lines += body or ["  pass"]
  reads = []
  for i in infos:
    if not i["ok"]:
      continue
    for a in ATTRS:
      if hasattr(i["cls"], a):
        want = type(getattr(i["cls"], a)).__name__
        reads.append(("c_%s_%s" % (i["name"], a), "%s.%s" % (i["name"], a),
                      want))
        reads.append(("i_%s_%s" % (i["name"], a), "%s().%s" % (i["name"], a),
                      want))
  # super() inside a method of Ci, evaluated on an instance of Ck: the lookup
  # continues after Ci in Ck's linearisation
  for k in infos:
    if not k["ok"]:
      continue
    for i in infos:
      if not (i["ok"] and i["bases"] and i["cls"] in k["cls"].__mro__):
        continue
      for a in ATTRS:
        try:
          val = getattr(super(i["cls"], k["cls"]()), a)
        except AttributeError:
          continue
        reads.append(("s_%s_%s_%s" % (k["name"], i["name"], a),
                      "%s().sup_%s_%s()" % (k["name"], i["name"], a),
                      type(val).__name__))
  for var, expr, _ in reads:
    lines.append("%s = %s" % (var, expr))
  # Second phase: after those reads, assign `x` on every class that has a
  # subclass (one class at a time, cumulatively) and read `x` again through
  # each of its descendants: the lookup must find the new definition exactly
  # where CPython's linearisation puts that class.
  reads2 = []
  step = 0
  for k in infos:
    if not k["ok"]:
      continue
    desc = [d for d in infos if d["ok"] and d is not k and
            k["cls"] in d["cls"].__mro__]
    if not desc:
      continue
    step += 1
    marker = type("R%d" % step, (), {})
    lines.insert(0, "class R%d: pass" % step)
    for name in class_line:
      class_line[name] += 1
    setattr(k["cls"], "x", marker())
    lines.append("%s.x = R%d()" % (k["name"], step))
    for d in [k] + desc:
      want = type(getattr(d["cls"], "x")).__name__
      for form, expr in (("c", "%s.x" % d["name"]), ("i", "%s().x" % d["name"])):
        var = "r%d%s_%s" % (step, form, d["name"])
        reads2.append((var, expr + "   # after %s.x = R%d()" % (k["name"], step),
                       want))
        lines.append("%s = %s" % (var, expr))
  return "\n".join(lines) + "\n", class_line, reads + reads2


def check_source_route(ctx, spec, infos, feats, case):
  src, class_line, reads = source_of(infos)
  try:
    r = an.infer(src)
  except Exception as e:  # pylint: disable=broad-except
    ctx.event("S:analysis-raised:" + type(e).__name__)
    return
  mro_lines = {l for n, l, _ in r.errors if n == "mro-error"}
  for i in infos:
    line = class_line[i["name"]]
    flagged = line in mro_lines
    if not i["ok"]:
      dup = len(set(i["bases"])) < len(i["bases"])
      ctx.check(flagged, "refused-class-not-reported:" + (
          "duplicate-base" if dup else "inconsistent-order"),
                "class %s(%s): CPython: %s; pytype reports no mro-error" % (
                    i["name"], ", ".join(i["bases"]), i["err"]), case)
    else:
      ctx.check(not flagged, "mro-error-on-legal-class",
                "class %s(%s) is accepted by CPython (mro %s) but pytype "
                "reports mro-error" % (i["name"], ", ".join(i["bases"]),
                                       [c.__name__ for c in i["cls"].__mro__]),
                case)
  consts = {c.name: c.type for c in r.ast.constants}
  any_refused = any(not i["ok"] for i in infos)
  for var, expr, want in reads:
    t = consts.get(var)
    got = getattr(t, "name", None)
    got = got.split(".")[-1] if got else repr(t)
    if got == "Any" or t is None or "Anything" in type(t).__name__:
      ctx.event("S:unverifiable-attribute-read")
      continue
    ctx.check(got == want, "attribute-resolved-in-wrong-order",
              "%s: stub type %s, CPython finds %s (mro %s)" % (
                  expr, got, want, "?"), case)


def stub_of(infos):
  lines = []
  for i in infos:
    for a in i["attrs"]:
      lines.append("class K%s_%s: ..." % (i["name"][1:], a))
  for i in infos:
    head = "class %s(%s):" % (i["name"], ", ".join(i["bases"])) if i[
        "bases"] else "class %s:" % i["name"]
    body = ["    %s: K%s_%s" % (a, i["name"][1:], a) for a in i["attrs"]]
    lines += [head] + (body or ["    pass"])
  return "\n".join(lines) + "\n"


def check_stub_route(ctx, spec, infos, feats, case):
  boot.ensure()
  from pytype.pytd import mro
  # refused classes are kept in the stub one at a time (the loader would not
  # get past the first one otherwise): all accepted classes + at most one
  # refused class
  refused = [i for i in infos if not i["ok"]]
  variants = [[i for i in infos if i["ok"]]]
  for rf in refused:
    variants.append([i for i in infos if i["ok"] or i is rf])
  for infos_v in variants:
    text = stub_of(infos_v)
    try:
      ast, _ = pt.load_resolved(text, "m")
    except Exception as e:  # pylint: disable=broad-except
      # a stub the loader rejects outright: acceptable only if it contains a
      # refused class
      if any(not i["ok"] for i in infos_v):
        ctx.event("P:loader-rejects-stub-with-refused-class")
        continue
      ctx.check(False, "P:loader-rejects-legal-hierarchy:" + type(e).__name__,
                "%s\n%s" % (str(e)[:300], text), case)
      continue
    for i in infos_v:
      cls = ast.Lookup("m." + i["name"])
      try:
        got = [c.name.split(".")[-1] for c in mro.GetBasesInMRO(cls)]
        err = None
      except mro.MROError as e:
        got, err = None, e
      if not i["ok"]:
        dup = len(set(i["bases"])) < len(i["bases"])
        ctx.check(err is not None, "P:refused-class-linearised:" + (
            "duplicate-base" if dup else "inconsistent-order"),
                  "stub class %s(%s): CPython: %s; GetBasesInMRO -> %s" % (
                      i["name"], ", ".join(i["bases"]), i["err"], got), case)
        continue
      want = [c.__name__ for c in i["cls"].__mro__[1:] if c is not object]
      ctx.check(err is None, "P:MROError-on-legal-class",
                "stub class %s(%s)" % (i["name"], ", ".join(i["bases"])), case)
      if err is None:
        got2 = [g for g in got if g != "object"]
        ctx.check(got2 == want, "P:mro-differs-from-CPython",
                  "stub class %s(%s): GetBasesInMRO %s, CPython %s" % (
                      i["name"], ", ".join(i["bases"]), got2, want), case)


def check_spec(ctx, spec, routes, tag):
  infos = build(spec)
  feats = features(infos)
  case = {"spec": [[list(b), list(a)] for b, a in spec]}
  ctx.case(key=repr(spec) + routes, nontrivial=bool(feats),
           sample=("; ".join("class %s(%s)%s" % (
               i["name"], ", ".join(i["bases"]),
               "" if i["ok"] else " [refused]") for i in infos))
           if feats else None,
           classes=[tag + ":" + f for f in sorted(feats)] + [tag + ":specs"])
  if "S" in routes:
    check_source_route(ctx, spec, infos, feats, case)
  if "P" in routes:
    check_stub_route(ctx, spec, infos, feats, case)


def base_lists(k, max_bases):
  opts = list(range(k)) + [-1]
  out = [()]
  for l in range(1, max_bases + 1):
    out += list(itertools.product(opts, repeat=l))
  return out


def exhaustive(ctx, n_classes, max_bases, routes, tag):
  """All hierarchies of n classes (attribute sets fixed by a rotating
  pattern so that every class defines something observable)."""
  per_class = [base_lists(k, max_bases) for k in range(n_classes)]
  pats = [("x",), ("x", "y"), ("y", "z"), ("z",)]
  idx = 0
  for combo in itertools.product(*per_class):
    idx += 1
    if idx % ctx.nshards != ctx.shard:
      continue
    spec = [(list(b), list(pats[(k + idx) % len(pats)]))
            for k, b in enumerate(combo)]
    check_spec(ctx, spec, routes, tag)


def spec_strategy():
  from hypothesis import strategies as st

  @st.composite
  def specs(draw):
    n = draw(st.integers(2, 8))
    spec = []
    for k in range(n):
      nb = draw(st.integers(0, 3))
      bases = draw(st.lists(st.integers(-1, 7), min_size=nb, max_size=nb))
      attrs = draw(st.lists(st.sampled_from(ATTRS), max_size=3, unique=True))
      spec.append((bases, sorted(attrs)))
    return spec

  return specs()


def layered_strategy():
  """Hierarchies in layers (roots, classes over two roots, classes over two
  or three of those): the shapes in which C3 differs from simpler orders."""
  from hypothesis import strategies as st

  @st.composite
  def specs(draw):
    nroots = draw(st.integers(2, 4))
    spec = [([], sorted(draw(st.lists(st.sampled_from(ATTRS), max_size=2,
                                      unique=True)))) for _ in range(nroots)]
    n1 = draw(st.integers(2, 3))
    for _ in range(n1):
      bases = draw(st.lists(st.integers(0, nroots - 1), min_size=1,
                            max_size=3, unique=True))
      spec.append((bases, sorted(draw(st.lists(st.sampled_from(ATTRS),
                                               max_size=2, unique=True)))))
    n2 = draw(st.integers(1, 3))
    for _ in range(n2):
      pool = list(range(nroots, nroots + n1)) + list(range(nroots))
      bases = draw(st.lists(st.sampled_from(pool), min_size=2, max_size=3,
                            unique=True))
      spec.append((bases, sorted(draw(st.lists(st.sampled_from(ATTRS),
                                               max_size=1, unique=True)))))
    return spec

  return specs()


def run_shard(ctx):
  boot.ensure()
  hyp_run(ctx, layered_strategy(), lambda s: check_spec(ctx, s, "P", "L"),
          300 if ctx.quick() else 6000, label="L-P")
  hyp_run(ctx, layered_strategy(), lambda s: check_spec(ctx, s, "S", "L"),
          6 if ctx.quick() else 300, label="L-S")
  if ctx.quick():
    exhaustive(ctx, 3, 2, "P", "E3")        # 4*... stub route, ms each
    exhaustive(ctx, 2, 3, "SP", "E2")
    hyp_run(ctx, spec_strategy(), lambda s: check_spec(ctx, s, "SP", "R"), 10,
            label="R")
  else:
    exhaustive(ctx, 3, 3, "SP", "E3")
    exhaustive(ctx, 4, 2, "P", "E4")
    hyp_run(ctx, spec_strategy(), lambda s: check_spec(ctx, s, "SP", "R"),
            800, label="R")


def replay(ctx, case):
  spec = [(list(b), list(a)) for b, a in case["spec"]]
  check_spec(ctx, spec, "SP", "replay")


def confirm_known(entry):
  from vlib.run import Ctx
  c = Ctx(ID, "quick", 0, 0, 1, [])
  try:
    replay(c, entry["input"])
  except Violation as v:
    return v.signature == entry["signature"]
  return False
