"""C03 - a disable comment on the reported line silences exactly that error.

Generator: programs assembled from a small generated core plus injected
mistakes of the classes pytype reports (single-line, multi-line calls,
decorated functions, implicit returns, several errors on a line).
Metamorphic oracle: for every reported error (name, line L) and every edit
(trailing `# pytype: disable=name`, trailing `# type: ignore`, stand-alone
disable/enable pair around the statement, unpaired stand-alone disable), the
new report equals the old one minus exactly the targeted errors (line numbers
shifted for inserted lines) and the stub text is unchanged.
"""

import ast as pyast

from vlib import an, boot, gen_py
from vlib.run import Violation, hyp_run

ID = "C03"
RULE = (
    "case = one (program, reported error, edit) triple: the program is "
    "re-analysed after the edit and the error report and stub are compared "
    "with the expected ones. Non-trivial = the targeted error sits in a "
    "multi-line statement, in a decorated function, at an implicit return, "
    "or shares its line with another error. distinct = distinct (source, "
    "line, error class, edit).")
ASSUMPTIONS = [
    "error identity is (class, line, message with line numbers masked); line "
    "numbers after an inserted stand-alone comment are shifted by the number "
    "of inserted lines",
    "lines inside string literals or ending in a backslash are never edit "
    "targets",
    "known finding: a trailing disable on a continuation line of a multi-line "
    "statement also silences errors of that class reported on the statement's "
    "first line (the start-line adjustment is deliberate for call-site "
    "errors); classified separately, any other over- or under-suppression is a "
    "violation",
]

SNIPPETS = [
    ("attr", ["(1).nonsense"]),
    ("binop", ["_u = 1 + 's'"]),
    ("argcount", ["len()"]),
    ("argcount2", ["int(1, 2, 3, 4)"]),
    ("notcallable", ["(1)()"]),
    ("nameerror", ["undefined_zz"]),
    ("multi-call", ["_m = max(", "    (1).nonsense,", "    ('s').frob)"]),
    ("multi-first", ["_n = (1).nonsense + max(", "    2,", "    (3).frob)"]),
    ("multi-list", ["_l = [(1).aa,", "      2,", "      (3).bb]"]),
    ("badreturn", ["def _br() -> int:", "  return 's'"]),
    ("decorated", ["def _deco(f): return f", "@_deco", "def _df(x):",
                   "  return (1).nonsense"]),
    ("decorated2", ["def _deco2(f): return f", "@_deco2", "@_deco2",
                    "def _dg(x: int) -> str:", "  return x"]),
    ("implicit-return", ["def _ir(x) -> int:", "  if x:", "    return 1"]),
    ("annassign", ["_am: int = 's'"]),
    ("wrongarg", ["def _wt(x: int): pass", "_wt('s')"]),
    ("wrongarg-multi", ["def _wm(x: int, y: str): pass", "_wm(", "    's',",
                        "    1)"]),
    ("two-same-line", ["_t = ((1).aa, (2).bb)"]),
    ("two-classes-line", ["_v = ((1).aa, len())"]),
    ("kwarg", ["def _kw(a): pass", "_kw(b=1)"]),
    ("missing", ["def _mp(a, b): pass", "_mp(1)"]),
    ("in-if", ["if len([]) == 0:", "  (1).nonsense", "else:", "  ('s').frob"]),
    ("in-method", ["class _K:", "  def m(self):", "    return self.nope",
                   "_K().m()"]),
    # errors raised while evaluating string (forward-reference) annotations
    ("fwdref-param", ["def _fr(x: 'UndefinedZ'): pass"]),
    ("fwdref-var", ["_fv: 'ZedZ' = None"]),
    ("fwdref-return", ["def _frr() -> 'UnknownZ': pass"]),
    ("fwdref-nested", ["def _fn(x: 'list[UnknownQ]') -> 'UnknownR': pass"]),
    # the reported line is the closing line of a triple-quoted string
    ("mlstr-implicit-return", ["def _ms() -> int:", '  s = """first',
                               'second"""']),
    ("mlstr-attr", ['_ma = """a', 'b""".nonsense']),
    ("mlstr-call", ["def _mc(a: int, b): pass", '_mc("""x', 'y""", 1)']),
    ("mlstr-in-list", ['_ml = ["""p', 'q""", (1).nonsense]']),
    ("mlstr-binop", ["_mb = 1 + \'\'\'u", "v\'\'\'"]),
    ("mlstr-then-error", ['_mt = """k', 'l"""; (2).frob']),
    ("mlstr-docstring-fn", ["def _md(x) -> int:", '  """doc', '  string"""',
                            "  if x:", "    return 1"]),
    # one error on the first decorator line, another on the def line
    ("decorator-line", ["def _dd(a):", "  def w(f): return f", "  return w",
                        "@_dd((1).nonsense)", "def _dh(x=(2).frob): return x"]),
    ("decorator-line-args", ["def _ni(a: int):", "  def w(f): return f",
                             "  return w", "@_ni('s')",
                             "def _di(x=_ni('t')): return x"]),
    ("decorator-two", ["def _d3(f): return f", "@_d3", "@(1).nonsense",
                       "def _dj(): return (2).frob"]),
    ("class-decorator", ["def _cd(c): return c", "@_cd",
                         "class _KD((1).nonsense if False else object):",
                         "  y = (3).frob"]),
]


def mask(msg):
  import re
  return re.sub(r"line \d+", "line N", msg)


def report(src):
  r = an.infer(src)
  errs = sorted((n, l, mask(m)) for n, l, m in r.errors)
  return errs, r.pyi


def statement_spans(src):
  """line -> (first line, last line) of the innermost simple statement."""
  tree = pyast.parse(src)
  spans = {}
  for node in pyast.walk(tree):
    if isinstance(node, pyast.stmt) and not isinstance(
        node, (pyast.FunctionDef, pyast.ClassDef, pyast.If, pyast.For,
               pyast.While, pyast.With, pyast.Try, pyast.AsyncFunctionDef)):
      for l in range(node.lineno, node.end_lineno + 1):
        cur = spans.get(l)
        if cur is None or (node.end_lineno - node.lineno) < (cur[1] - cur[0]):
          spans[l] = (node.lineno, node.end_lineno)
  return spans


def string_lines(src):
  """Lines that lie inside a multi-line string token."""
  import io
  import tokenize
  bad = set()
  for tok in tokenize.generate_tokens(io.StringIO(src).readline):
    if tok.type == tokenize.STRING and tok.end[0] > tok.start[0]:
      bad.update(range(tok.start[0], tok.end[0]))
  return bad


def check_program(ctx, src, tags):
  case_base = {"src": src}
  try:
    R, S = report(src)
  except Exception as e:  # pylint: disable=broad-except
    ctx.event("analysis-raised:" + type(e).__name__)
    return
  if not R:
    ctx.event("program-without-errors")
    return
  lines = src.split("\n")
  spans = statement_spans(src)
  strl = string_lines(src)
  by_line = {}
  for e in R:
    by_line.setdefault(e[1], []).append(e)
  targets = sorted({(n, l) for n, l, _ in R})
  for name, L in targets:
    if L < 1 or L > len(lines) or L in strl or lines[L - 1].rstrip().endswith(
        "\\") or name in ("python-compiler-error", "invalid-directive",
                          "late-directive"):
      continue
    span = spans.get(L, (L, L))
    multi = span[1] > span[0]
    shares = len(by_line[L]) > 1
    nontriv = multi or shares or any(t in tags for t in (
        "decorated", "decorated2", "implicit-return"))

    def run_edit(kind, new_src, expected, extra_allowed=()):
      case = dict(case_base, error=[name, L], edit=kind)
      try:
        R2, S2 = report(new_src)
      except Exception as e:  # pylint: disable=broad-except
        ctx.event("analysis-raised-after-edit:" + type(e).__name__)
        return
      ctx.case(key=(src, name, L, kind), nontrivial=nontriv,
               sample=("edit %s for [%s] at line %d of:\n%s" % (
                   kind, name, L, "\n".join(lines[max(0, span[0] - 2):span[1] + 1])))
               if nontriv else None,
               classes=["edit:" + kind] + (["multi-line"] if multi else []) +
               (["shared-line"] if shares else []))
      if sorted(R2) != sorted(expected):
        missing = [e for e in expected if e not in R2]
        extra = [e for e in R2 if e not in expected]
        if not extra and missing and all(m in extra_allowed for m in missing):
          ctx.check(False, "disable-on-continuation-line-silences-first-line",
                    "edit %s at line %d also removed %s" % (kind, L, missing),
                    case)
          return
        what = ("target-not-silenced" if any(
            e[0] == name and e[1] == L for e in extra) else
                "other-errors-changed")
        ctx.check(False, "%s:%s" % (kind, what),
                  "after %s for [%s] at line %d: disappeared %s, appeared %s\n%s"
                  % (kind, name, L, missing[:3], extra[:3],
                     "\n".join(new_src.split("\n")[max(0, L - 3):L + 2])), case)
        return
      ctx.check(S2 == S, kind + ":stub-changed",
                "after %s for [%s] at line %d the inferred stub differs" % (
                    kind, name, L), case)

    # --- trailing disable
    new = list(lines)
    new[L - 1] = new[L - 1] + "  # pytype: disable=" + name
    exp = [e for e in R if not (e[0] == name and e[1] == L)]
    # known over-suppression: same-class errors on the statement's first line
    allowed = [e for e in R if e[0] == name and e[1] == span[0] and L != span[0]]
    run_edit("trailing-disable", "\n".join(new), exp, allowed)
    # --- trailing type: ignore
    new = list(lines)
    new[L - 1] = new[L - 1] + "  # type: ignore"
    exp = [e for e in R if e[1] != L]
    allowed = [e for e in R if e[1] == span[0] and L != span[0]]
    run_edit("trailing-type-ignore", "\n".join(new), exp, allowed)
    # --- stand-alone disable before the statement, enable after it
    first, last = span
    indent = lines[first - 1][:len(lines[first - 1]) - len(
        lines[first - 1].lstrip())]
    if first - 1 not in strl and first not in strl:
      new = list(lines)
      new.insert(last, indent + "# pytype: enable=" + name)
      new.insert(first - 1, indent + "# pytype: disable=" + name)
      exp = []
      for n_, l_, m_ in R:
        if n_ == name and first <= l_ <= last:
          continue
        shift = 0 if l_ < first else (1 if l_ <= last else 2)
        exp.append((n_, l_ + shift, m_))
      run_edit("standalone-pair", "\n".join(new), exp)


def assemble(draw):
  from hypothesis import strategies as st
  cfg = gen_py.Cfg(n_stmts=(2, 5), classes=False, try_=False, lambdas=False)
  prog = draw(gen_py.program(cfg))
  k = draw(st.integers(1, 4))
  picks = draw(st.lists(st.integers(0, len(SNIPPETS) - 1), min_size=k,
                        max_size=k, unique=True))
  stmts = list(prog["stmts"])
  tags = []
  for p in picks:
    tag, lines = SNIPPETS[p]
    tags.append(tag)
    pos = draw(st.integers(0, len(stmts)))
    stmts.insert(pos, "\n".join(lines))
  return "\n".join(list(prog["header"]) + stmts) + "\n", tags


def run_shard(ctx):
  boot.ensure()
  from hypothesis import strategies as st
  # every snippet alone (deterministic part)
  for i, (tag, lines) in enumerate(SNIPPETS):
    if i % ctx.nshards == ctx.shard:
      check_program(ctx, "x0 = 1\n" + "\n".join(lines) + "\ny0 = 's'\n", [tag])
  # the same snippets below a first line that has errors of its own (a
  # directive on line 1 must not reach errors that are reported elsewhere,
  # e.g. those found while evaluating string annotations)
  firsts = ["undefined_l1", "_l1 = (0).first + undefined_l1"]
  k = 0
  for tag, lines in SNIPPETS:
    if not tag.startswith(("fwdref", "annassign", "badreturn", "wrongarg",
                           "nameerror", "decorator-line", "implicit")):
      continue
    for first in firsts:
      k += 1
      if k % ctx.nshards == ctx.shard:
        check_program(ctx, first + "\n" + "\n".join(lines) + "\ny0 = 's'\n",
                      [tag, "first-line-error"])

  @st.composite
  def progs(draw):
    return assemble(draw)

  hyp_run(ctx, progs(), lambda x: check_program(ctx, x[0], x[1]),
          3 if ctx.quick() else 300, label="G")


def replay(ctx, case):
  check_program(ctx, case["src"], ["decorated"])


def confirm_known(entry):
  from vlib.run import Ctx
  c = Ctx(ID, "quick", 0, 0, 1, [])
  try:
    replay(c, entry["input"])
  except Violation as v:
    return v.signature == entry["signature"]
  return False
