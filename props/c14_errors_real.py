"""C14 - errors on fully known code are real, and plain type mistakes are
caught.

Exhaustive statement grid over a value grammar; each statement is executed in
isolation under CPython.  Soundness: a pytype error on the line => CPython
raised TypeError/AttributeError.  Completeness (advertised mistakes only):
missing attribute/method on a builtin or user instance, calling a
non-callable, + - * / unary minus or subscripting between builtin types that
do not support it => the line is flagged.
"""

import builtins
import itertools
import warnings

from vlib import an, boot
from vlib.run import Violation, hyp_run

ID = "C14"
RULE = (
    "case = one straight-line statement (binary / unary operator, subscript, "
    "attribute read, method call, call, len(), iter()) over ground operands, "
    "analysed inside a module of ~350 such statements and executed alone "
    "under CPython. Non-trivial = operands of different classes, or a user "
    "class with a dunder involved, or the outcome depends on reflected "
    "fallback / numeric promotion, or CPython raises. distinct = distinct "
    "statement text. Statements on which CPython raises something other than "
    "TypeError/AttributeError are outside the domain and only counted.")
ASSUMPTIONS = [
    "CPython 3.12 executing the statement alone (after the class prelude) is "
    "the oracle",
    "completeness is asserted only for the advertised list in the property "
    "(attribute/method missing on builtin or user instance; non-callable "
    "called; + - * / and unary minus and subscripting between builtin types)",
]

PRELUDE0 = '''class K0: pass
class KAdd:
  def __add__(self, o): return 1
  def __radd__(self, o): return "r"
class KSub:
  def __rsub__(self, o): return 2.5
  def __mul__(self, o): return self
class KGet:
  def __getitem__(self, i): return i
class KCall:
  def __call__(self, *a): return len(a)
class KNeg:
  def __neg__(self): return 0
  def __len__(self): return 3
class KIter:
  def __iter__(self): return iter([1])
  x = 1
  def meth(self): return "m"
class KSubInt(int): pass
'''

PRELUDE = PRELUDE0 + "".join("%s = %s\n" % kv for kv in {
    "s_int": "1", "s_str": "'s'", "s_list": "[1]", "s_none": "None",
    "s_k0": "K0()", "s_dict": "{'a': 1}", "s_len": "len"}.items())

BUILTIN_VALUES = [
    "1", "0", "-3", "1.5", "True", "2j", "'s'", "''", "b'b'", "None",
    "[]", "[1]", "['a']", "[[1]]", "(1,)", "()", "(1, 'a')", "{'a': 1}", "{}",
    "{1}", "frozenset()", "range(3)", "bytearray(b'x')",
]
USER_VALUES = ["K0()", "KAdd()", "KSub()", "KGet()", "KCall()", "KNeg()",
               "KIter()", "KSubInt(2)"]
FUNC_VALUES = ["len", "abs", "'ab'.upper", "[1].append", "KIter().meth"]
OTHER_VALUES = FUNC_VALUES + ["int", "str", "K0", "KIter"]
VALUES = BUILTIN_VALUES + USER_VALUES + OTHER_VALUES

BINOPS = ["+", "-", "*", "/", "//", "%", "**", "@", "&", "|", "^", "<<", ">>"]
ADVERTISED_BINOPS = {"+", "-", "*", "/"}
UNOPS = ["-", "+", "~", "not "]


def method_names():
  names = set()
  for t in (int, float, str, bytes, list, tuple, dict, set, frozenset,
            complex, bool, type(None), range):
    names |= {n for n in dir(t) if not n.startswith("_")}
  names |= {"__len__", "__iter__", "__add__", "__getitem__", "nonsense",
            "frobnicate", "x", "meth"}
  # methods with side effects on the process or very long running: none in
  # these classes; `to_bytes` etc. are pure.
  return sorted(names)


def all_statements():
  out = []
  for a, b in itertools.product(VALUES, VALUES):
    for op in BINOPS:
      out.append(("bin" + op, "(%s) %s (%s)" % (a, op, b), (a, b)))
    out.append(("subscr", "(%s)[%s]" % (a, b), (a, b)))
    out.append(("call1", "(%s)(%s)" % (a, b), (a, b)))
  for a in VALUES:
    for op in UNOPS:
      out.append(("un" + op.strip(), "%s(%s)" % (op, a), (a,)))
    out.append(("call0", "(%s)()" % a, (a,)))
    out.append(("len", "len(%s)" % a, (a,)))
    out.append(("iter", "iter(%s)" % a, (a,)))
    for n in method_names():
      out.append(("attr", "(%s).%s" % (a, n), (a, n)))
      out.append(("meth", "(%s).%s()" % (a, n), (a, n)))
  return out


SHARED = {"s_int": "1", "s_str": "'s'", "s_list": "[1]", "s_none": "None",
          "s_k0": "K0()", "s_dict": "{'a': 1}", "s_len": "len"}


def repeated_statements():
  """The same mistake made twice (and three times) on one shared object."""
  out = []
  for var, val in SHARED.items():
    for stmt, kind in (("%s.nonsense" % var, "attr"),
                       ("%s.frobnicate()" % var, "meth"),
                       ("%s()" % var, "call0"), ("-%s" % var, "un-"),
                       ("%s[0]" % var, "subscr")):
      for _ in range(3):
        out.append((kind, stmt, (val, "0" if kind == "subscr" else "nonsense")))
  return out


def cpython_outcome(stmt, ns_template):
  ns = dict(ns_template)
  try:
    with warnings.catch_warnings():
      warnings.simplefilter("ignore")
      exec(compile(stmt, "s.py", "exec"), ns)  # pylint: disable=exec-used
    return None
  except (TypeError, AttributeError) as e:
    if isinstance(e, TypeError) and str(e).startswith("unhashable type"):
      # hashability is not part of what pytype's type system models (and not
      # among the advertised mistakes): outside the domain
      return "other:unhashable"
    return type(e).__name__
  except Exception as e:  # pylint: disable=broad-except
    return "other:" + type(e).__name__


def is_builtin_value(v):
  return v in BUILTIN_VALUES


def advertised(kind, operands, outcome):
  """Is this failing statement one of the mistakes pytype advertises?"""
  if outcome == "AttributeError" and kind in ("attr", "meth"):
    a = operands[0]
    # builtin functions and bound methods are instances of builtin classes too
    return a in BUILTIN_VALUES or a in USER_VALUES or a in FUNC_VALUES
  if outcome != "TypeError":
    return False
  if kind == "call0" or kind == "call1":
    # calling a non-callable (not: wrong arguments to a callable)
    a = operands[0]
    return (a in BUILTIN_VALUES or a in ("K0()", "KAdd()", "KGet()",
                                         "KNeg()", "KIter()", "KSub()"))
  if kind.startswith("bin") and kind[3:] in ADVERTISED_BINOPS:
    return all(is_builtin_value(x) for x in operands)
  if kind == "un-":
    return is_builtin_value(operands[0])
  if kind == "subscr":
    return all(is_builtin_value(x) for x in operands)
  return False


def check_module(ctx, stmts):
  src = PRELUDE + "\n".join(s for _, s, _ in stmts) + "\n"
  first = PRELUDE.count("\n") + 1
  case_base = {"stmts": [s for _, s, _ in stmts]}
  try:
    with warnings.catch_warnings():
      warnings.simplefilter("ignore")
      r = an.check(src)
  except Exception as e:  # pylint: disable=broad-except
    ctx.event("analysis-raised:" + type(e).__name__)
    return
  errs = {}
  for name, line, msg in r.errors:
    errs.setdefault(line, []).append(name)
  ns = {}
  exec(compile(PRELUDE, "p.py", "exec"), ns)  # pylint: disable=exec-used
  for k, (kind, stmt, operands) in enumerate(stmts):
    line = first + k
    out = cpython_outcome(stmt, ns)
    flagged = errs.get(line, [])
    classes = ["kind:" + (kind if not kind.startswith("bin") else "binop")]
    if out and out.startswith("other:"):
      ctx.case(key=stmt, nontrivial=False, classes=classes + [
          "outside-domain:" + out[6:]])
      continue
    mixed = len(operands) == 2 and kind not in ("attr", "meth") and (
        operands[0] != operands[1])
    user = any(o in USER_VALUES for o in operands)
    nontriv = bool(out) or mixed or user
    ctx.case(key=stmt, nontrivial=nontriv,
             sample=("%s -> CPython %s, pytype %s" % (
                 stmt, out or "runs", flagged or "no error"))
             if nontriv and k % 53 == 0 else None,
             classes=classes + ["cpython:" + (out or "runs")])
    case = dict(stmt=stmt, kind=kind)
    if flagged and out is None:
      ctx.check(False, "error-on-code-that-runs:%s:%s" % (
          flagged[0], kind if not kind.startswith("bin") else "binop"),
                "%s runs cleanly under CPython but pytype reports %s" %
                (stmt, flagged), case)
    if out and not flagged and advertised(kind, operands, out):
      ctx.check(False, "advertised-mistake-not-reported:%s:%s" % (
          out, kind if not kind.startswith("bin") else "bin" + kind[3:]),
                "%s raises %s under CPython but pytype reports nothing" %
                (stmt, out), case)


def run_shard(ctx):
  boot.ensure()
  stmts = all_statements()
  per = 350
  chunks = [stmts[i:i + per] for i in range(0, len(stmts), per)]
  if ctx.quick():
    # stratified: every 12th statement (the grid order interleaves kinds)
    # the advertised core completely, the rest stratified
    core = [x for x in stmts if (
        (x[0][:3] == "bin" and x[0][3:] in ADVERTISED_BINOPS or
         x[0] == "subscr") and all(o in BUILTIN_VALUES for o in x[2])) or
            (x[0] in ("un-", "call0") and x[2][0] in BUILTIN_VALUES)]
    core_set = {x[1] for x in core}
    rest = [x for x in stmts if x[1] not in core_set]
    sel = core + rest[ctx.seed % 12::12]
    chunks = [sel[i:i + per] for i in range(0, len(sel), per)]
  for i, ch in enumerate(chunks):
    if i % ctx.nshards == ctx.shard:
      check_module(ctx, ch)
  if ctx.shard == ctx.nshards - 1:
    check_module(ctx, repeated_statements())
  if ctx.shard == 0:
    ctx.extra["grid_statements_total"] = len(stmts)
  ctx.extra["exhaustive"] = not ctx.quick()
  # two-step statements: t = a OP b; t OP c
  from hypothesis import strategies as st
  vals = st.sampled_from(VALUES)
  ops = st.sampled_from(BINOPS)
  two = st.lists(st.tuples(vals, ops, vals, ops, vals), min_size=40,
                 max_size=120)

  def body(rows):
    stmts2 = [("bin2", "((%s) %s (%s)) %s (%s)" % r, (r[0], r[2], r[4]))
              for r in rows]
    check_module(ctx, stmts2)

  hyp_run(ctx, two, body, 3 if ctx.quick() else 200, label="two-step")


def replay(ctx, case):
  if "stmt" in case:
    stmts = [s for s in all_statements() if s[1] == case["stmt"]] or [
        ("bin2", case["stmt"], ("?", "?"))]
    check_module(ctx, stmts)


def confirm_known(entry):
  from vlib.run import Ctx
  c = Ctx(ID, "quick", 0, 0, 1, [])
  try:
    replay(c, entry["input"])
  except Violation as v:
    return v.signature == entry["signature"]
  return False
