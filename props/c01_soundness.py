"""C01 - inferred types admit every value the program actually computes
(loop-free code).

Generator: vlib/gen_py core fragment (no loops).  Differential oracle against
CPython: the program is executed (truncated before the first top-level
statement that raises); every module-level name, every instance attribute of
those values and every value returned by a module-level call must be admitted
by the type the emitted stub declares.
"""

import ast as pyast
import sys
import types

from vlib import an, boot, gen_py, oracle_types
from vlib.run import Violation, hyp_run

ID = "C01"
RULE = (
    "case = one loop-free generated program, executed under CPython and "
    "analysed by io.generate_pyi; every module-level name / instance "
    "attribute / module-level call result is checked for membership in its "
    "stub type. Non-trivial = the program has a branch binding different "
    "kinds, a conditional return, an inherited attribute overridden with "
    "another kind, an isinstance/None narrowing, a try/except, or an "
    "attribute set from outside the class. distinct = distinct source text. "
    "Programs are truncated before the first top-level statement that raises "
    "under CPython (a deterministic function of the generated value).")
ASSUMPTIONS = [
    "membership oracle vlib/oracle_types.py (PEP 484; unmodelled library "
    "types admit everything and are counted)",
    "known finding excluded by construction: inside a try body the statement "
    "that may raise comes first (assignments made in a try body before the "
    "raise are not visible to the handler in pytype's VM design)",
    "class-level mutable attributes mutated through instances are not "
    "generated (pytype documents per-instance tracking only)",
    "programs for which pytype reports wrong-arg-types / "
    "annotation-type-mismatch / bad-return-type contradict their own "
    "annotations at run time and are discarded (pytype trusts annotations by "
    "design; that they are reported is C02's subject)",
    "two recorded findings are excluded from the random programs by "
    "construction because their wrong type makes later branches look dead "
    "(`'k' in d` after a conditional store; conditional instance-attribute "
    "store over a class attribute); their recorded inputs are re-confirmed "
    "on every run",
]

NONTRIVIAL = {"diamond-super", "flow:dict-store", "flow:dict-in", "flow:attr-store", "flow:list-mutate", "flow:list-insert", "flow:dict-del", "flow:set-add", "flow:nested-store", "type-dispatch", "bool-op-value", "truthiness",
              "branch-different-kinds", "conditional-return",
              "override-different-kind", "isinstance", "none-test", "try",
              "attribute-set-from-outside", "multiple-inheritance",
              "list-mutation", "dict-mutation"}


def snap(v, depth=0):
  """Structural snapshot of containers at return time (the caller may mutate
  the returned object afterwards)."""
  if depth > 4:
    return v
  if type(v) is list:
    return [snap(x, depth + 1) for x in v]
  if type(v) is tuple:
    return tuple(snap(x, depth + 1) for x in v)
  if type(v) is dict:
    return {k: snap(x, depth + 1) for k, x in v.items()}
  if type(v) is set:
    return set(v)
  return v


def run_program(stmts_src, header):
  """Execute top-level statements one by one; stop before the first failure.
  Returns (number of statements executed, namespace, recorded calls)."""
  ns = {"__name__": "m"}
  calls = []

  def prof(frame, event, arg):
    if event == "return" and frame.f_code.co_filename == "m.py":
      back = frame.f_back
      if (back is not None and back.f_code.co_filename == "m.py" and
          back.f_code.co_name == "<module>" and
          frame.f_code.co_name != "<module>"):
        slf = frame.f_locals.get("self")
        qual = frame.f_code.co_qualname
        on_sub = (slf is not None and "." in qual and
                  type(slf).__qualname__ != qual.rsplit(".", 1)[0])
        recv = (type(slf) if slf is not None else
                frame.f_locals.get("cls"))
        calls.append((qual, snap(arg), on_sub, recv))

  for h in header:
    exec(compile(h, "m.py", "exec"), ns)  # pylint: disable=exec-used
  done = 0
  for s in stmts_src:
    code = compile(s, "m.py", "exec")
    mark = len(calls)
    sys.setprofile(prof)
    try:
      exec(code, ns)  # pylint: disable=exec-used
    except Exception:  # pylint: disable=broad-except
      sys.setprofile(None)
      del calls[mark:]
      break
    finally:
      sys.setprofile(None)
    done += 1
  return done, ns, calls


def top_level_statements(prog):
  """The program as a list of single top-level statements (source)."""
  src = "\n".join(prog["stmts"]) + "\n"
  tree = pyast.parse(src)
  lines = src.split("\n")
  out = []
  for node in tree.body:
    out.append("\n".join(lines[node.lineno - 1:node.end_lineno]))
  return out


def stub_index(ast):
  consts = {c.name: c.type for c in ast.constants}
  classes = {}

  def reg(c, prefix=""):
    classes[prefix + c.name.split(".")[-1]] = c
    for cc in c.classes:
      reg(cc, prefix + c.name.split(".")[-1] + ".")

  for c in ast.classes:
    reg(c)
  funcs = {f.name: f for f in ast.functions}
  aliases = {a.name: a.type for a in ast.aliases}
  return consts, classes, funcs, aliases


def check_program(ctx, prog, label="G"):
  stmts = top_level_statements(prog)
  done, ns, calls = run_program(stmts, prog["header"])
  if done == 0:
    ctx.event("discarded:first-statement-raises")
    return
  truncated = done < len(stmts)
  src = "\n".join(list(prog["header"]) + stmts[:done]) + "\n"
  case = {"src": src}
  try:
    r = an.infer(src)
  except Exception as e:  # pylint: disable=broad-except
    ctx.event("analysis-raised:" + type(e).__name__)
    return
  if any(n in ("wrong-arg-types", "annotation-type-mismatch",
               "bad-return-type") for n, _, _ in r.errors):
    # the program contradicts its own annotations at run time (pytype says so
    # and, by design, trusts the annotation): outside the property
    ctx.event("discarded:program-contradicts-its-annotations")
    return
  O = oracle_types.Oracle()
  consts, classes, funcs, aliases = stub_index(r.ast)
  feats = set(prog["features"])
  nt = bool(feats & NONTRIVIAL)
  ctx.case(key=src, nontrivial=nt,
           sample=(src[:700] + "\n--- stub\n" + r.pyi[:500]) if nt else None,
           classes=["feature:" + f for f in sorted(feats & NONTRIVIAL)] +
           (["truncated"] if truncated else []) + ["programs"])

  def declared_attr(cls_obj, attr):
    for c in cls_obj.__mro__:
      pc = classes.get(c.__name__)
      if pc is None:
        continue
      for k in pc.constants:
        if k.name == attr:
          return k.type
      for m in pc.methods:
        if m.name == attr:
          return "method"
    return None

  for name, val in ns.items():
    if name.startswith("__") or isinstance(val, types.ModuleType):
      continue
    if name in ("Union", "Optional", "Any"):
      continue
    if isinstance(val, type):
      ok = (name in classes or name in aliases or name in consts)
      ctx.check(ok, "class-missing-from-stub", "class %s" % name, case)
      continue
    if isinstance(val, (types.FunctionType, types.LambdaType)):
      ok = (name in funcs or name in consts or name in aliases)
      ctx.check(ok, "function-missing-from-stub", "function %s" % name, case)
      continue
    if name not in consts:
      if name in funcs or name in aliases or name in classes:
        continue
      ctx.check(False, "name-missing-from-stub",
                "%s = %r is bound at module level but absent from the stub\n%s"
                % (name, val, r.pyi[:800]), case)
      continue
    t = consts[name]
    ok = O.admits(t, val)
    ctx.check(ok, "stub-type-excludes-runtime-value:module-name" + (
        "" if ok else (class_attr_behind_instance_store(src, name, ns) or
                       dict_membership_after_store(src, name, ns) or
                       assigned_from_reused_call(src, name))),
              "%s: stub type %s does not admit the run-time value %r" % (
                  name, an_print(t), val), case)
    # instance attributes
    if type(val).__name__ in classes and type(val).__module__ == "m":
      for k, x in vars(val).items():
        d = declared_attr(type(val), k)
        if d is None:
          ctx.check(False, "instance-attribute-missing-from-stub",
                    "%s.%s = %r (instance of %s) is not declared on the stub "
                    "class or its bases" % (name, k, x, type(val).__name__),
                    case)
        elif d != "method":
          custom_new = any("__new__" in vars(c) for c in type(val).__mro__
                           if c.__module__ == "m")
          ctx.check(O.admits(d, x),
                    "stub-type-excludes-runtime-value:instance-attribute" + (
                        ":class-with-custom-__new__" if custom_new else ""),
                    "%s.%s: stub type %s does not admit %r" % (
                        name, k, an_print(d), x), case)
  # module-level call results
  for qual, val, on_subclass, recv in calls:
    parts = qual.split(".")
    if "<lambda>" in qual or "<locals>" in qual or "<listcomp>" in qual:
      continue
    f = None
    if len(parts) == 1:
      f = funcs.get(parts[0])
    elif ".".join(parts[:-1]) in classes:
      for m in classes[".".join(parts[:-1])].methods:
        if m.name == parts[-1]:
          f = m
    if f is None:
      ctx.event("call-target-not-in-stub")
      continue
    if parts[-1] == "__init__":
      continue
    rets = [s.return_type for s in f.signatures]
    ok = any(admits_return(O, s, val, recv) for s in f.signatures)
    ctx.check(ok, "stub-type-excludes-runtime-value:call-result" + (
        ":inherited-method-on-subclass-instance" if on_subclass else
        ("" if ok else reads_rebound_global_transitively(src, parts[-1]))),
              "%s() returned %r but the stub declares %s" % (
                  qual, val, [an_print(t) for t in rets]), case)
  if O.unmodelled:
    ctx.event("unmodelled-type-checks", len(O.unmodelled))


def admits_return(O, sig, val, recv):
  """Return type of one signature against the returned value; a TypeVar that
  is also the type of self / cls stands for the receiver's class."""
  from pytype.pytd import pytd
  rt = sig.return_type
  if (isinstance(rt, pytd.TypeParameter) and sig.params and
      isinstance(recv, type)):
    p0 = sig.params[0].type
    if isinstance(p0, pytd.GenericType) and p0.parameters:
      p0 = p0.parameters[0]
    if isinstance(p0, pytd.TypeParameter) and p0.name == rt.name:
      return isinstance(val, recv)
  return O.admits(rt, val)


def reads_rebound_global_transitively(src, fname):
  """Suffix for one recorded finding: module-level function `fname` calls
  (possibly through further functions) a function that reads a module-level
  name which the program binds more than once, without reading it itself -
  pytype's call cache is keyed by the globals the callee names directly."""
  tree = pyast.parse(src)
  binds = {}
  funcs = {}
  for node in tree.body:
    if isinstance(node, (pyast.FunctionDef, pyast.AsyncFunctionDef)):
      funcs[node.name] = node
    for n in pyast.walk(node) if not isinstance(
        node, (pyast.FunctionDef, pyast.AsyncFunctionDef,
               pyast.ClassDef)) else []:
      if isinstance(n, pyast.Name) and isinstance(n.ctx, pyast.Store):
        binds[n.id] = binds.get(n.id, 0) + 1
  for f in funcs.values():
    declared = {g for n in pyast.walk(f) if isinstance(n, pyast.Global)
                for g in n.names}
    for n in pyast.walk(f):
      if (isinstance(n, pyast.Name) and isinstance(n.ctx, pyast.Store) and
          n.id in declared):
        binds[n.id] = binds.get(n.id, 0) + 1
  rebound = {k for k, c in binds.items() if c >= 2}
  reads = {name: {n.id for n in pyast.walk(f) if isinstance(n, pyast.Name) and
                  isinstance(n.ctx, pyast.Load)} for name, f in funcs.items()}
  if fname not in funcs or reads[fname] & rebound:
    return ""
  seen, todo = set(), [fname]
  while todo:
    x = todo.pop()
    for callee in reads.get(x, ()):
      if callee in funcs and callee not in seen:
        seen.add(callee)
        if reads[callee] & rebound:
          return ":call-result-reused-despite-transitively-read-global"
        todo.append(callee)
  return ""


def assigned_from_reused_call(src, name):
  """`name = f(...)` (last module-level assignment) with f as in
  reads_rebound_global_transitively."""
  last = None
  for node in pyast.parse(src).body:
    if (isinstance(node, pyast.Assign) and len(node.targets) == 1 and
        isinstance(node.targets[0], pyast.Name) and
        node.targets[0].id == name):
      last = node
  if (last is not None and isinstance(last.value, pyast.Call) and
      isinstance(last.value.func, pyast.Name)):
    return reads_rebound_global_transitively(src, last.value.func.id)
  return ""


def class_attr_behind_instance_store(src, name, ns):
  """Suffix for the one recorded finding: `name = obj.attr` where the value
  read at run time is the *class* attribute (the instance has no such entry)
  and the program stores `<something>.attr` somewhere."""
  tree = pyast.parse(src)
  last = None
  for node in tree.body:
    if (isinstance(node, pyast.Assign) and len(node.targets) == 1 and
        isinstance(node.targets[0], pyast.Name) and
        node.targets[0].id == name):
      last = node
  if (last is None or not isinstance(last.value, pyast.Attribute) or
      not isinstance(last.value.value, pyast.Name)):
    return ""
  obj, attr = ns.get(last.value.value.id), last.value.attr
  if obj is None or type(obj).__module__ != "m" or isinstance(obj, type):
    return ""
  if attr in getattr(obj, "__dict__", {}):
    return ""
  if not any(attr in vars(c) for c in type(obj).__mro__ if c.__module__ == "m"):
    return ""
  stores = [n for n in pyast.walk(tree) if isinstance(n, pyast.Attribute) and
            isinstance(n.ctx, pyast.Store) and n.attr == attr]
  return ":class-attribute-read-after-conditional-instance-store" if stores else ""


def dict_membership_after_store(src, name, ns):
  """Suffix for the one recorded finding: the last assignment to `name` tests
  `'key' in d` for a dict d that the program also stores into / deletes from
  after creating it (pytype answers such a test from a flow-insensitive key
  table)."""
  tree = pyast.parse(src)
  last = None
  for node in tree.body:
    if (isinstance(node, pyast.Assign) and len(node.targets) == 1 and
        isinstance(node.targets[0], pyast.Name) and
        node.targets[0].id == name):
      last = node
  if last is None:
    return ""
  for cmp_ in pyast.walk(last.value):
    if not (isinstance(cmp_, pyast.Compare) and len(cmp_.ops) == 1 and
            isinstance(cmp_.ops[0], (pyast.In, pyast.NotIn)) and
            isinstance(cmp_.left, pyast.Constant) and
            isinstance(cmp_.left.value, str) and
            isinstance(cmp_.comparators[0], pyast.Name)):
      continue
    d = cmp_.comparators[0].id
    if not isinstance(ns.get(d), dict):
      continue
    for n in pyast.walk(tree):
      if (isinstance(n, pyast.Subscript) and
          isinstance(n.ctx, (pyast.Store, pyast.Del)) and
          isinstance(n.value, pyast.Name) and n.value.id == d):
        return ":dict-membership-after-conditional-store"
  return ""


def an_print(t):
  boot.ensure()
  from pytype.pytd import pytd_utils
  try:
    return pytd_utils.Print(t)
  except Exception:  # pylint: disable=broad-except
    return repr(t)


FIXED = [
    # cooperative super() in a diamond
    """class Base:
  def __init__(self):
    self.tag = 0
  def describe(self):
    return 0
class Left(Base):
  def __init__(self):
    super().__init__()
  def describe(self):
    return super().describe()
class Right(Base):
  def __init__(self):
    self.tag = "right"
  def describe(self):
    return "right"
class Diamond(Left, Right):
  pass
r = Diamond().describe()
t = Diamond().tag
r2 = Left().describe()
""",
    "t = [1, 1, 1, 1, 1, 1, 1, 1, 1, 1, 1, 1, 1, 1, 1, 1, 1, 1, 1, 1, 1, 1, 1, 1, 1, 1, 1, 1, 1, 1, 1, 1, 1, 1, 1, 1, 1, 1, 1, 1, 1, 1, 1, 1, 1, 1, 1, 1, 1, 1, 1, 1, 1, 1, 1, 1, 1, 1, 1, 1, 1, 1, 1, 's', None, 2.5]\nu = t[63]\nv = t[-1]\nw = t[62]\nx = t[-66]\n",
    # long literals: kept prefix, tail types, indices on both sides (fix 15006b4)
    "big = [0, 1, 2, 3, 4, 5, 6, 7, 8, 9, 10, 11, 12, 13, 14, 15, 16, 17, 18, 19, 20, 21, 22, 23, 24, 25, 26, 27, 28, 29, 30, 31, 32, 33, 34, 35, 36, 37, 38, 39, 40, 41, 42, 43, 44, 45, 46, 47, 48, 49, 50, 51, 52, 53, 54, 55, 56, 57, 58, 59, 60, 61, 62, 63, 64, 65, 'tail', None, 2.5, 66]\na = big[0]\nb = big[-1]\nc = big[61]\nd = big[66]\ne = big[-3]\nf = big[60:63]\n",
    # nested class named like a module-level class; a method returns the
    # module-level one (fix 3694df8)
    """class Node:
  v = 1
class Outer:
  class Node:
    w = "s"
    def up(self):
      return Node()
    def me(self):
      return self
n = Outer.Node()
o = n.up()
p = n.me()
""",
    # defaults mutated in the callee, conditional attributes, global rebinding
    """def f(a, b=None):
  if b is None:
    b = []
  b.append(a)
  return b
x = f(1)
y = f("s", x)
z = x if len(y) > 5 else None
w = [q for q in (1, "a", None)]
""",
    """class A:
  c = 1
  def __init__(self, v):
    self.v = v
    if v: self.w = "s"
    else: self.w = None
  def set(self, n): self.late = n; return self
class B(A):
  c = "x"
  def __init__(self): A.__init__(self, 0); self.own = (1, 2.0)
a = A(1); b = B(); a2 = A("q").set([1])
t = (a.c, b.c, b.v, b.w)
u = {k: v for k, v in (("a", 1), ("b", None))}
b.v = "changed"
""",
    """def pick(flag):
  if flag: return 1
  elif flag is None: return None
  return "s"
r = [pick(True), pick(False), pick(None)]
s = r[0] or r[1]
d = {}
d[1] = "a"; d["k"] = 2.0
e = d.get(1)
m = max([1, 2.5])
n = not r
o = r and r[2]
p = {1, "a"} | {2.0}
try:
  q = int("zz")
except ValueError:
  q = None
def g(*args, **kw): return args, kw
gg = g(1, "a", k=2.0)
h = (lambda a, b=2: (a, b))("x")
""",
    """x = 1
def bump():
  global x
  x = "s"
bump()
def deco(f): return f
@deco
def k(): return 3
kk = k()
nested = [[1], ["a", None]]
first = nested[1][1]
def outer():
  def inner(): return b"b"
  return inner
fn = outer(); res = fn()
""",
]


FIXED += [
    # call results must not be shared between equal-hash constants
    """def pick(flag):
  if isinstance(flag, bool):
    return "flag"
  return 2.5
a = pick(1)
b = pick(True)
def wrap(k):
  return [k]
c = wrap("k")
d = wrap(b"k")
e = pick(0)
f = pick(False)
""",
    # truthiness of instances: __len__ / __bool__ found late in the MRO
    """class Tagged:
  tag = "t"
class Sized:
  def __init__(self, n):
    self.n = n
  def __len__(self):
    return self.n
class Box(Tagged, Sized):
  pass
x = 1 if Box(0) else "empty"
y = Box(0) or None
z = Box(2) and 3.5
class Flag:
  def __bool__(self):
    return False
class Sub(Tagged, Flag):
  pass
w = Sub() or b"no"
""",
    # isinstance with numeric promotion must not be folded
    """def describe(n):
  if isinstance(n, float):
    return n
  return str(n)
p = describe(7)
q = describe(7.0)
def num(n):
  return n if isinstance(n, (str, complex)) else None
r = num(3)
s = num(2j)
""",
]


def part_fixed(ctx):
  for i, src in enumerate(FIXED):
    if i % ctx.nshards == ctx.shard:
      prog = {"header": [], "stmts": [src.rstrip("\n")],
              "features": ["branch-different-kinds", "conditional-return"]}
      check_program(ctx, prog, "F")


def run_shard(ctx):
  boot.ensure()
  part_fixed(ctx)
  cfg = gen_py.Cfg(n_stmts=(5, 22))
  hyp_run(ctx, gen_py.program(cfg), lambda p: check_program(ctx, p),
          int(__import__("os").environ.get("C01_N", 16)) if ctx.quick() else 1500, label="G")
  cfg2 = gen_py.Cfg(n_stmts=(6, 16), annotations=0.4)
  hyp_run(ctx, gen_py.program(cfg2), lambda p: check_program(ctx, p),
          6 if ctx.quick() else 400, label="G-annotated")


def replay(ctx, case):
  prog = {"header": [], "stmts": [case["src"].rstrip("\n")],
          "features": ["try"]}
  check_program(ctx, prog, "replay")


def confirm_known(entry):
  from vlib.run import Ctx
  c = Ctx(ID, "quick", 0, 0, 1, [])
  try:
    replay(c, entry["input"])
  except Violation as v:
    return v.signature == entry["signature"]
  return False
