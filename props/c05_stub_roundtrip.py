"""C05 - every stub pytype emits is a valid stub that pytype reads back
unchanged.

(A) stubs emitted for generated programs (gen_py, all feature switches);
(B) generated stubs in the emitted dialect, normalised once through
    Print(parse(.)).
Oracle: parse succeeds, VerifyVisitor passes, Print(parse(T)) == T,
canonical_pyi(T) == T for (A), and the re-read declarations equal what was
printed (pytd ASTeq and an independent order-sensitive normal form).
"""

from vlib import boot, gen_pyi, pt
from vlib.run import Violation, hyp_run

ID = "C05"
RULE = (
    "case = one stub text T: (A) the .pyi emitted by io.generate_pyi for a "
    "generated program, (B) Print(parse(T0)) for a generated stub T0; checked "
    "for parse, VerifyVisitor, Print(parse(T)) == T, canonical_pyi(T) == T "
    "(A only) and structural equality of the re-read AST. Non-trivial = T "
    "contains >= 1 of TypeVar, @overload, nested class, Callable, fixed "
    "tuple, Literal, property, star-args / keyword-only parameters, or an "
    "import of a non-typing name. distinct = distinct text T.")
ASSUMPTIONS = [
    "stubs are parsed with PyiOptions(python_version=(3, 12))",
    "(B) quantifies over the dialect produced by vlib/gen_pyi.py, written "
    "from pytype's own printed output",
]

FEATURES = ["TypeVar(", "@overload", "    class ", "Callable[", "tuple[",
            "Literal[", "'property']", "*args", "**", "*, ", "/, ", "import "]


def _mods():
  boot.ensure()
  from pytype.pyi import parser
  from pytype.pytd import pytd_utils, visitors
  return parser, pytd_utils, visitors


def nontrivial(text):
  body = text.split("\n\n", 1)[-1]
  return any(f in text for f in FEATURES[:-1]) or (
      "import " in body)


def features(text):
  return [f.strip() for f in FEATURES if f in text]


def check_text(ctx, T, label, case, canonical, emitted_ast=None):
  """T is stub text as pytype prints it, without the trailing newline."""
  parser, pytd_utils, visitors = _mods()
  try:
    ast = pt.parse(T, None)
  except Exception as e:  # pylint: disable=broad-except
    raise Violation("emitted-stub-does-not-parse:" + type(e).__name__,
                    "%s: %s\n%s" % (label, e, T[:1500]), case)
  try:
    ast.Visit(visitors.VerifyVisitor())
  except Exception as e:  # pylint: disable=broad-except
    raise Violation("emitted-stub-fails-verifier", "%s: %r" % (label, e), case)
  from props import progs_c05
  progs_c05.compare_shapes(ctx, T, ast, label + "-text-vs-reread", case)
  P = pytd_utils.Print(ast)
  nt = nontrivial(T)
  ctx.case(key=T, nontrivial=nt, sample=(label + ":\n" + T[:600]) if nt else
           None, classes=["%s:%s" % (label, f) for f in features(T)] +
           [label + ":stubs"])
  # root-cause bucket: a functional-form TypedDict (emitted for keys that are
  # not identifiers) is re-read as alias + synthetic class
  fsfx = ":functional-TypedDict" if " = TypedDict('" in T else ""
  if not fsfx:
    # second root-cause bucket: `import m as alias` (a direct import under
    # another name) with `alias.X` used in a declaration.  Re-read without a
    # loader, `alias.X` stays spelled through the alias, and the printer takes
    # `alias` for a real module that collides with the local name.
    import re
    for al in re.findall(r"^import [\w.]+ as (\w+)$", T, re.M):
      if re.search(r"(?<![\w.])%s\.\w" % re.escape(al), T.split("\n\n", 1)[-1]):
        fsfx = ":aliased-module-import"
        break
  if not fsfx and P != T:
    # third root-cause bucket: the only difference between the two prints is
    # a `: Any` on parameters that the second print leaves out
    import re
    drop = lambda x: re.sub(r"(\*{0,2}\w+): Any\b", r"\1", x)
    if drop(P) == drop(T):
      fsfx = ":Any-parameter-annotation-dropped-by-second-print"
  ctx.check(P == T, "print-parse-not-fixed-point" + fsfx,
            "%s: Print(parse(T)) != T\n--- T\n%s\n--- Print(parse(T))\n%s" %
            (label, T[:1200], P[:1200]), case)
  try:
    ast2 = pt.parse(P, None)
  except Exception as e:  # pylint: disable=broad-except
    raise Violation("reprinted-stub-does-not-parse", "%s: %s" % (label, e),
                    case)
  ctx.check(pytd_utils.ASTeq(ast, ast2), "reparse-changes-declarations" + fsfx,
            "%s: parse(Print(parse(T))) != parse(T)" % label, case)
  if canonical:
    try:
      C = parser.canonical_pyi(T, options=pt.pyi_options())
    except Exception as e:  # pylint: disable=broad-except
      raise Violation("canonical_pyi-raises", "%s: %r" % (label, e), case)
    if C != T:
      # Not asserted: the property asks for a parse-then-print fixed point.
      # canonical_pyi re-sorts union members, and the sort key depends on the
      # node class (ClassType in the emitted AST, NamedType after re-reading),
      # so 'Union[float, dict[int, int]]' is legitimately re-ordered.
      ctx.event("note:canonical_pyi-reorders-emitted-stub")
    # canonical_pyi must itself be idempotent and parseable
    try:
      C2 = parser.canonical_pyi(C, options=pt.pyi_options())
    except Exception as e:  # pylint: disable=broad-except
      raise Violation("canonical_pyi-output-not-readable", "%s: %r" % (label, e),
                      case)
    ctx.check(C2 == C, "canonical_pyi-not-idempotent" + fsfx,
              "%s: canonical_pyi(canonical_pyi(T)) != canonical_pyi(T)" % label,
              case)
  if emitted_ast is not None:
    # the re-read declarations equal what was printed
    want = emitted_ast.Visit(visitors.ClassTypeToNamedType())
    want = want.Visit(visitors.RemoveTypeParametersFromGenericAny()) if hasattr(
        visitors, "RemoveTypeParametersFromGenericAny") else want
    got = ast.Visit(visitors.ClassTypeToNamedType())
    P2 = pytd_utils.Print(got)
    PW = pytd_utils.Print(want)
    ctx.check(P2 == PW, "reread-declarations-differ-from-emitted" + fsfx,
              "%s: Print(reread) != Print(emitted)" % label, case)


def part_b(ctx, n):
  def body(T0):
    case = {"kind": "B", "text": T0}
    try:
      ast0 = pt.parse(T0, None)
      T = pt.Print(ast0)
    except Exception as e:  # pylint: disable=broad-except
      # the generator promises parseable text: a failure here is a harness
      # problem, not a property violation
      ctx.event("harness:generated-stub-rejected:" + type(e).__name__)
      return
    # the reader keeps what the text declares (independent reading of the
    # same text by Python's own ast module)
    from props import progs_c05
    progs_c05.compare_shapes(ctx, T0, ast0, "B-generated-text", case)
    check_text(ctx, T, "B", case, canonical=False)

  hyp_run(ctx, gen_pyi.stub(), body, n, label="B")
  hyp_run(ctx, gen_pyi.stub(max_classes=2, max_consts=8, max_funcs=6, depth=3),
          body, max(1, n // 3), label="B-deep")


SLOT_TYPES = ["Any", "Optional[int]", "Union[int, str]",
              "Callable[[int], str]", "Callable[..., Any]", "Literal[1]",
              "type[int]", "tuple[()]", "tuple[int, ...]", "_T0",
              "Annotated[int, 'property']", "list[Any]", "dict[str, Any]",
              "Callable[[_T0], _T0]", "None", "object"]
SLOTS = ["x: {t}", "def f(a: {t}) -> int: ...", "def f(a: int = ...) -> {t}: ...",
         "def f(*args: {t}) -> int: ...", "def f(**kwargs: {t}) -> int: ...",
         "def f(a, /, b: {t}) -> int: ...", "def f(*, k: {t} = ...) -> int: ...",
         "class C:\n    a: {t}", "class C:\n    def m(self, a: {t}) -> int: ...",
         "class C:\n    @staticmethod\n    def s(a: {t}) -> int: ...",
         "class C:\n    @classmethod\n    def c(cls) -> {t}: ...",
         "x: list[{t}]", "x: dict[str, {t}]", "x: tuple[{t}, int]",
         "x: Callable[[{t}], int]", "A = {t}",
         "@overload\ndef f(a: {t}) -> int: ...\n@overload\ndef f(a: str) -> str: ...",
         "class C:\n    class I:\n        z: {t}"]


def part_slots(ctx):
  """One typing construct in exactly one slot of an otherwise minimal stub:
  the import bookkeeping of the printer is exercised slot by slot."""
  idx = 0
  for t in SLOT_TYPES:
    for slot in SLOTS:
      idx += 1
      if idx % ctx.nshards != ctx.shard:
        continue
      if slot.startswith("A = ") and t in ("None", "_T0", "Literal[1]",
                                           "Annotated[int, 'property']"):
        continue
      if "Annotated" in t and "class C:\n    a:" not in slot:
        continue
      if t == "_T0" and ("def " not in slot or "-> _T0" in slot.format(t=t)
                         and "(a" not in slot):
        continue
      body = slot.format(t=t)
      names = [n for n in ("Any", "Optional", "Union", "Callable", "Literal",
                           "Annotated", "overload") if n in body]
      if "_T0" in body:
        names.append("TypeVar")
      head = ("from typing import %s\n" % ", ".join(sorted(set(names)))
              if names else "")
      if "_T0" in body:
        head += "_T0 = TypeVar('_T0')\n"
      T0 = head + "\n" + body + "\n"
      case = {"kind": "B", "text": T0}
      try:
        ast0 = pt.parse(T0, None)
        T = pt.Print(ast0)
      except Exception as e:  # pylint: disable=broad-except
        ctx.event("harness:slot-stub-rejected:" + type(e).__name__)
        continue
      from props import progs_c05
      progs_c05.compare_shapes(ctx, T0, ast0, "B-slot-text", case)
      check_text(ctx, T, "B-slot", case, canonical=True)


FIXED_STUBS = [
    # names reached through from-imported modules, up to four components,
    # plain and subscripted
    """from pkg import models
from pkg.storage import backend as be
from typing import Optional

DEFAULT: models.Record
ROOT: models.Tree.Node

class Repo(be.Base):
    cursor: be.Connection.Cursor
    def get(self, key: str) -> Optional[models.Record]: ...
    def walk(self, start: models.Tree.Node) -> list[models.Tree.Node]: ...

def connect(url: str) -> be.Connection: ...
def deep(x: be.Connection.Pool.Slot[int]) -> models.Tree.Node.Leaf[be.Page[str]]: ...
def open_cursor(conn: be.Connection) -> be.Connection.Cursor: ...
def pool(conn: be.Connection) -> be.Connection.Pool[be.Connection.Cursor]: ...
def rows(c: be.Connection.Cursor) -> be.Page[models.Record]: ...""",
    """import a.b.c
import d

x: a.b.c.K.L[d.M.N[int]]
y: d.M

def f(p: a.b.c.K) -> d.M.N[a.b.c.K.L[str]]: ...""",
    # slots
    """class Marker:
    __slots__ = []

class Pt:
    __slots__ = ["x", "y"]
    x: int
    y: str

class Q(Marker):
    __slots__ = []
    def m(self) -> int: ...""",
    # literals whose members are equal as Python values
    """from typing import Literal

x: Literal[True, 1]
y: Literal[0, False, 'a']

def f(x: Literal[True, 1]) -> Literal[1, True]: ...""",
]


def part_fixed_stubs(ctx):
  from props import progs_c05
  for i, T0 in enumerate(FIXED_STUBS):
    if i % ctx.nshards != ctx.shard:
      continue
    case = {"kind": "B", "text": T0}
    ast0 = pt.parse(T0, None)
    progs_c05.compare_shapes(ctx, T0, ast0, "B-fixed-text", case)
    T = pt.Print(ast0)
    # these texts are written in the emitted dialect: the first print already
    # has to reproduce them
    ctx.check(T == T0, "print-parse-not-fixed-point",
              "fixed stub: Print(parse(T)) != T\n--- T\n%s\n--- printed\n%s" % (
                  T0, T), case)
    check_text(ctx, T, "B", case, canonical=True)


def run_shard(ctx):
  boot.ensure()
  part_slots(ctx)
  part_fixed_stubs(ctx)
  part_b(ctx, 90 if ctx.quick() else 8000)
  try:
    from props import progs_c05
  except ImportError:
    progs_c05 = None
  if progs_c05:
    progs_c05.run(ctx, check_text)


def replay(ctx, case):
  if case.get("kind") == "B":
    T = pt.Print(pt.parse(case["text"], None))
    check_text(ctx, T, "B", case, canonical=False)
  else:
    from props import progs_c05
    progs_c05.replay(ctx, case, check_text)


def confirm_known(entry):
  """All signatures the recorded program produces (collected, not raised)."""
  from vlib.run import Ctx
  from props import progs_c05
  c = Ctx(ID, "quick", 0, 0, 1, [])
  sigs = set()

  def collect(ok, signature, detail, case):
    if not ok:
      sigs.add(signature)

  c.check = collect
  try:
    replay(c, entry["input"])
  except Violation as v:
    sigs.add(v.signature)
  return entry["signature"] in sigs
