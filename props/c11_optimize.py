"""C11 - stub optimisation only ever widens types and is idempotent.

Inputs: generated stubs (vlib/gen_pyi) resolved by the real loader, the
pre-optimisation ASTs of generated programs, pytype's bundled stubs.
Oracle: finite-universe denotations (vlib/den.py):
  (1) lower(before) <= upper(after) for every constant / parameter / return
      type, signatures matched by parameter names (signatures may merge);
  (2) Optimize(Optimize(x)) == Optimize(x) for every setting.
"""

import itertools

from vlib import boot, den, gen_pyi, pt
from vlib.run import Violation, hyp_run

ID = "C11"
RULE = (
    "case = one (stub AST, optimiser setting): every constant, parameter and "
    "return type compared before/after under a finite-universe membership "
    "oracle (about 900 abstract values; class membership by the stub "
    "hierarchy), plus idempotence of Optimize. Non-trivial = the printed stub "
    "changed AND it contains a union, a container merge candidate or "
    "overloaded signatures. distinct = distinct (stub text, setting).")
ASSUMPTIONS = [
    "membership oracle vlib/den.py: exact for scalars, NoneType, unions, "
    "list/set/frozenset/dict/tuple (homogeneous and fixed), type[C], Literal, "
    "Callable by arity and result only; TypeVars and parameters of user "
    "generic classes are erased; unmodelled constructs admit everything on "
    "the 'after' side and nothing on the 'before' side (can miss, cannot "
    "false-alarm)",
    "with use_abcs=True the class hierarchy is extended by "
    "pytd/abc_hierarchy.py as the optimiser documents",
]

SETTINGS = [
    ("pytype", dict(lossy=False, use_abcs=False, max_union=7,
                    remove_mutable=False)),
    ("max_union=2", dict(lossy=False, use_abcs=False, max_union=2,
                         remove_mutable=False)),
    ("max_union=4", dict(lossy=False, use_abcs=False, max_union=4,
                         remove_mutable=False)),
    ("max_union=None", dict(lossy=False, use_abcs=False, max_union=None,
                            remove_mutable=False)),
    ("remove_mutable", dict(lossy=False, use_abcs=False, max_union=7,
                            remove_mutable=True)),
    ("use_abcs", dict(lossy=False, use_abcs=True, max_union=7,
                      remove_mutable=False)),
    ("lossy", dict(lossy=True, use_abcs=False, max_union=7,
                   remove_mutable=False)),
    ("lossy+abcs", dict(lossy=True, use_abcs=True, max_union=7,
                        remove_mutable=False)),
]
# Settings whose non-idempotence is a recorded, setting-wide known finding
# (one signature per setting); every other setting gets root-cause signatures.
SETTING_WIDE = {"remove_mutable": "remove_mutable", "lossy": "lossy",
                "lossy+abcs": "lossy"}


def _mods():
  boot.ensure()
  from pytype.pytd import abc_hierarchy, optimize, pytd, pytd_utils, visitors
  return abc_hierarchy, optimize, pytd, pytd_utils, visitors


_BUILTIN_SUP = None


def hierarchy(loader, ast, use_abcs):
  global _BUILTIN_SUP
  abc_hierarchy = _mods()[0]
  if _BUILTIN_SUP is None:
    _BUILTIN_SUP = den.superclasses_of([loader.builtins, loader.typing])
  sup = dict(_BUILTIN_SUP)
  sup.update(den.superclasses_of([ast]))
  if use_abcs:
    for k, v in abc_hierarchy.GetSuperClasses().items():
      sup.setdefault(k, [])
      sup[k] = list(sup[k]) + list(v)
  return sup


def all_classes(ast):
  out = []

  def rec(cls):
    out.append(cls)
    for c in cls.classes:
      rec(c)

  for c in ast.classes:
    rec(c)
  return out


def items(ast):
  """Yield (path, kind, node) for constants and functions incl. class members."""
  for c in ast.constants:
    yield ("const", c.name), c
  for f in ast.functions:
    yield ("func", f.name), f
  for cls in all_classes(ast):
    for c in cls.constants:
      yield ("const", cls.name + "." + c.name), c
    for m in cls.methods:
      yield ("func", cls.name + "." + m.name), m


def sig_shape(sig):
  return tuple((p.name, str(p.kind), p.optional) for p in sig.params) + (
      ("*", sig.starargs.name if sig.starargs else None),
      ("**", sig.starstarargs.name if sig.starstarargs else None))


def sig_mutations(sig):
  """(name, declared type, type after the call or None)."""
  return [(p.name, p.type, p.mutated_type) for p in sig.params]


def sig_types(sig):
  ts = [(p.name, p.type) for p in sig.params]
  if sig.starargs:
    ts.append(("*" + sig.starargs.name, sig.starargs.type))
  if sig.starstarargs:
    ts.append(("**" + sig.starstarargs.name, sig.starstarargs.type))
  return ts


def widening_violations(D, before, after, check_mutated):
  """Returns list of (where, detail)."""
  _, _, pytd, pytd_utils, _ = _mods()
  out = []
  a_items = dict(items(after))
  for path, node in items(before):
    other = a_items.get(path)
    if other is None:
      out.append((path, "declaration disappeared"))
      continue
    if path[0] == "const":
      lo, _ = D.masks(node.type)
      _, up = D.masks(other.type)
      if lo & ~up:
        out.append((path, "constant type narrowed: %s -> %s (e.g. %r)" % (
            pytd_utils.Print(node.type), pytd_utils.Print(other.type),
            first_value(D, lo & ~up))))
      continue
    for sig in node.signatures:
      covered = False
      why = "no signature with the same parameters"
      for s2 in other.signatures:
        if sig_shape(sig)[:len(sig.params)] != sig_shape(s2)[:len(s2.params)]:
          # parameter names / kinds / optionality must match
          continue
        if sig_shape(sig) != sig_shape(s2):
          continue
        ok = True
        for (n1, t1), (n2, t2) in zip(sig_types(sig), sig_types(s2)):
          lo, _ = D.masks(t1)
          _, up = D.masks(t2)
          if lo & ~up:
            ok = False
            why = "parameter %s narrowed: %s -> %s (e.g. %r)" % (
                n1, pytd_utils.Print(t1), pytd_utils.Print(t2),
                first_value(D, lo & ~up))
            break
        if ok:
          # a parameter's type after the call ("mutated" parameter) must not
          # become stricter either; optimisers may fold it into the declared
          # type (AbsorbMutableParameters), so the after side is
          # mutated_type-or-declared-type.
          for (n1, _, m1), (_, t2, m2) in zip(sig_mutations(sig),
                                              sig_mutations(s2)):
            if m1 is None:
              continue
            lo, _ = D.masks(m1)
            _, up = D.masks(m2 if m2 is not None else t2)
            if lo & ~up:
              ok = False
              why = "mutated parameter %s narrowed: %s -> %s (e.g. %r)" % (
                  n1, pytd_utils.Print(m1),
                  pytd_utils.Print(m2 if m2 is not None else t2),
                  first_value(D, lo & ~up))
              break
        if ok:
          lo, _ = D.masks(sig.return_type)
          _, up = D.masks(s2.return_type)
          if lo & ~up:
            ok = False
            why = "return type narrowed: %s -> %s (e.g. %r)" % (
                pytd_utils.Print(sig.return_type),
                pytd_utils.Print(s2.return_type), first_value(D, lo & ~up))
        if ok:
          covered = True
          break
      if not covered:
        out.append((path, "signature %s not covered after optimisation: %s" %
                    (pytd_utils.Print(sig), why)))
  return out


def first_value(D, mask):
  i = (mask & -mask).bit_length() - 1
  return D.u.values[i]


def interesting(text):
  return ("Union[" in text or "Optional[" in text or "@overload" in text)


def check_ast(ctx, make, label, text_key, case, settings=SETTINGS):
  """make() -> (fresh resolved ast, loader)."""
  _, optimize, pytd, pytd_utils, visitors = _mods()
  for sname, kw in settings:
    ast, loader = make()
    deps = loader.concat_all()
    user = [c.name for c in all_classes(ast)]
    U = den.Universe(user[:6])
    D = den.Den(U, hierarchy(loader, ast, kw["use_abcs"]))
    before_txt = pytd_utils.Print(ast)
    try:
      o1 = optimize.Optimize(ast, deps, **kw)
    except Exception as e:  # pylint: disable=broad-except
      raise Violation("optimize-raises:%s" % type(e).__name__,
                      "%s [%s]: %r" % (label, sname, e),
                      dict(case, setting=sname))
    after_txt = pytd_utils.Print(o1)
    changed = before_txt != after_txt
    nt = changed and interesting(before_txt)
    ctx.case(key=(text_key, sname), nontrivial=nt,
             sample=("[%s] %s\n=== before\n%s\n=== after\n%s" % (
                 sname, label, before_txt[:500], after_txt[:500]))
             if nt and len(before_txt) < 900 else None,
             classes=["setting:" + sname] + (["changed:" + sname] * changed))
    vs = widening_violations(D, ast, o1, False)
    for path, detail in vs:
      ctx.check(False, "narrowing[%s]:%s" % (
          "lossless" if not kw["lossy"] else "lossy",
          detail.split(":")[0].split(" ")[0] + "-" + path[0]),
                "[%s] %s %s: %s" % (sname, label, path, detail),
                dict(case, setting=sname))
    ctx.event("unmodelled-type-evaluations", D.unmodelled)
    # idempotence
    try:
      o2 = optimize.Optimize(o1, deps, **kw)
    except Exception as e:  # pylint: disable=broad-except
      raise Violation("optimize-raises-on-optimized:%s" % type(e).__name__,
                      "%s [%s]: %r" % (label, sname, e),
                      dict(case, setting=sname))
    t2 = pytd_utils.Print(o2)
    same = (t2 == after_txt) and pytd_utils.ASTeq(o1, o2)
    if not same:
      cls = idem_class(after_txt, t2)
      # a classified root cause is the same defect under every setting
      sig = ("not-idempotent:" + cls if cls not in ("other", "ast-only")
             else "not-idempotent[%s]:%s" % (sname, cls))
      if sname in SETTING_WIDE:
        sig = "not-idempotent-setting:" + SETTING_WIDE[sname]
      ctx.check(False, sig, "[%s] %s: second Optimize changes the stub\n"
                "--- once\n%s\n--- twice\n%s" % (
                    sname, label, diff_lines(after_txt, t2), ""),
                dict(case, setting=sname))


def changed_lines(a, b):
  import difflib
  rem, add = [], []
  for l in difflib.ndiff(a.splitlines(), b.splitlines()):
    if not l[2:].strip():
      continue
    if l.startswith("- ") and "from typing import" not in l:
      rem.append(l[2:])
    elif l.startswith("+ ") and "from typing import" not in l:
      add.append(l[2:])
  return rem, add


def diff_lines(a, b):
  rem, add = changed_lines(a, b)
  out = []
  for x, y in itertools.zip_longest(rem, add, fillvalue=""):
    out.append("  once : " + x)
    out.append("  twice: " + y)
  return "\n".join(out[:12])


def idem_class(a, b):
  """Coarse root-cause bucket for a non-idempotence."""
  import re
  rem, add = changed_lines(a, b)
  if not rem and not add:
    return "ast-only"
  bare = r"\b(tuple|list|set|frozenset|dict|type)\b(?!\[)"
  classes = set()
  for x, y in itertools.zip_longest(rem, add, fillvalue=""):
    if "object" in x and "object" in y and len(y) < len(x):
      # union members that a pass running after
      # SimplifyUnionsWithSuperclasses produced (a bare container from
      # SimplifyContainers, the mutated type folded in by
      # AbsorbMutableParameters) are absorbed by `object` only on the
      # second pass
      classes.add("members-absorbed-by-object-on-second-pass")
    elif "Any" in x and x.count("Union[") > y.count("Union["):
      classes.add("union-with-Any-collapses-late")
    else:
      classes.add("other")
  if len(classes) == 1:
    return classes.pop()
  return "other"


def part_generated(ctx, n):
  def body(text):
    case = {"kind": "stub", "text": text}
    check_ast(ctx, lambda: pt.load_resolved(text, "m"), "generated", text,
              case)

  hyp_run(ctx, gen_pyi.stub(aliases=False), body, n, label="gen")
  hyp_run(ctx, gen_pyi.stub(aliases=False, mutations=True, max_classes=2,
                            max_consts=1, max_funcs=5), body, max(1, n // 2),
          label="gen-mut")
  hyp_run(ctx, gen_pyi.stub(max_classes=3, max_consts=6, max_funcs=3, depth=3,
                            aliases=False), body, max(1, n // 3),
          label="gen-deep")


FIXED = [
    # overload merging + container merging + superclass absorption
    """from typing import Callable, Optional, Union
class A: ...
class B(A): ...
class C(A): ...
x1: Union[list[int], list[str], tuple[int, str], tuple[int]]
x2: Union[tuple[int, str], tuple[str, ...], B, A]
x3: Union[Callable[[int], str], Callable[[int, int], int], dict[str, int], dict[int, B]]
x4: Union[int, str, float, bytes, None, A, list[int], set[int], dict[int, int]]
x6: Union[list[list[int]], list[list[str]], list[tuple[int, int]], list[tuple[str]]]
def f(a: int) -> int: ...
def f(a: int) -> str: ...
def f(a: str) -> Union[B, C, A]: ...
def g(a: Union[B, A], b: Union[list[B], list[C]] = ...) -> Union[bool, int]: ...
class D:
  def m(self, x: int) -> list[int]: ...
  def m(self, x: int) -> list[str]: ...
""",
]


POOL = ["list", "tuple", "dict", "SL", "dict[str, str]", "list[B]",
        "tuple[()]", "tuple[int]", "tuple[int, str]", "tuple[str, ...]",
        "list[int]", "list[str]", "Callable[[], int]", "Callable[[int], str]",
        "Callable[..., int]", "dict[int, str]", "dict[str, int]", "int", "A",
        "B", "None", "object", "type[A]", "type[B]", "set[B]", "Any",
        "Literal[1]"]


def part_small_unions(ctx, arity, per_stub=150):
  """Exhaustive ordered unions of `arity` members from POOL, as constants,
  parameters and return types."""
  combos = [c for c in itertools.product(POOL, repeat=arity)
            if len(set(c)) == arity]
  chunks = [combos[i:i + per_stub] for i in range(0, len(combos), per_stub)]
  for ci, chunk in enumerate(chunks):
    if ci % ctx.nshards != ctx.shard:
      continue
    lines = ["from typing import Any, Callable, Literal, Union",
             "class A: ...", "class B(A): ...", "class SL(list[str]): ..."]
    for k, c in enumerate(chunk):
      u = "Union[%s]" % ", ".join(c)
      lines.append("x%d: %s" % (k, u))
      lines.append("def f%d(a: %s) -> %s: ..." % (k, u, u))
      if arity == 2 and "Literal" not in u:
        # the same two types as declared type and type after the call
        lines.append("def g%d(a: %s) -> None:\n    a = %s" % (k, c[0], c[1]))
    text = "\n".join(lines) + "\n"
    check_ast(ctx, lambda: pt.load_resolved(text, "m"), "small-unions",
              text, {"kind": "stub", "text": text}, settings=SETTINGS[:5])


def part_fixed(ctx):
  for text in FIXED:
    check_ast(ctx, lambda: pt.load_resolved(text, "m"), "fixed", text,
              {"kind": "stub", "text": text})


def run_shard(ctx):
  boot.ensure()
  if ctx.shard == 0:
    part_fixed(ctx)
  part_small_unions(ctx, 2)
  if not ctx.quick():
    part_small_unions(ctx, 3)
  part_generated(ctx, 20 if ctx.quick() else 1500)
  try:
    from props import progs_c11
  except ImportError:
    progs_c11 = None
  if progs_c11:
    progs_c11.run(ctx, check_ast)


def replay(ctx, case):
  if case.get("kind") == "program":
    from pytype import analyze, config, io
    opts = config.Options.create("m.py", python_version=(3, 12))

    def make():
      ret = io._call(analyze.infer_types, case["src"], opts, None)  # pylint: disable=protected-access
      return ret.ast, ret.context.loader

    sel = [s for s in SETTINGS if s[0] == case.get("setting")] or SETTINGS[:2]
    check_ast(ctx, make, "program", "P:" + case["src"], case, settings=sel)
    return
  text = case["text"]
  sel = [s for s in SETTINGS if s[0] == case.get("setting")] or SETTINGS
  check_ast(ctx, lambda: pt.load_resolved(text, "m"), "replay", text, case,
            settings=sel)


def confirm_known(entry):
  from vlib.run import Ctx
  c = Ctx(ID, "quick", 0, 0, 1, [])
  text = entry["input"]["text"]
  sel = [s for s in SETTINGS if s[0] == entry["input"].get("setting")] or SETTINGS
  try:
    check_ast(c, lambda: pt.load_resolved(text, "m"), "known", text,
              {"kind": "stub", "text": text}, settings=sel)
  except Violation as v:
    return v.signature == entry["signature"]
  return False
