import boot, sys, itertools
from pytype import io, config
opts = config.Options.create(python_version=(3,12))
vals = ['1', '1.5', 'True', '"s"', 'b"b"', 'None', '[1]', '(1,)', '{"a": 1}', '{1}', '2j', 'K()', 'len', 'frozenset()']
ops = ['+', '-', '*', '/', '//', '%', '**', '<', '&', '|', '@', '<<']
stmts = []
for a, b in itertools.product(vals, vals):
  for op in ops:
    stmts.append(f"({a}) {op} ({b})")
for a in vals:
  stmts += [f"-({a})", f"~({a})", f"({a})[0]", f"({a})()", f"({a}).foo", f"({a}).upper()", f"({a}).append(1)", f"len({a})", f"({a})['a']", f"iter({a})", f"+({a})"]
pre = "class K:\n  def __add__(self, o): return 1\n  def __radd__(self, o): return 2\n"
src = pre + "\n".join(stmts) + "\n"
res = io.check_py(src, opts)
errs = {}
for e in res.context.errorlog:
  errs.setdefault(e.line, []).append(e.name)
fp = fn = agree_err = agree_ok = 0
import warnings; warnings.simplefilter("ignore")
for i, s in enumerate(stmts):
  line = i + 4
  g = {}
  exec(pre, g)
  try:
    exec(s, g); rt = None
  except (TypeError, AttributeError) as ex:
    rt = type(ex).__name__
  except Exception as ex:
    rt = "other:" + type(ex).__name__
  pe = errs.get(line)
  if pe and rt in (None,) : fp += 1; print("FP", s, pe)
  elif pe and rt and rt.startswith("other"): print("ERR-OTHER", s, pe, rt)
  elif not pe and rt in ("TypeError", "AttributeError"): fn += 1; print("FN", s, rt)
  elif pe: agree_err += 1
  else: agree_ok += 1
print(fp, fn, agree_err, agree_ok)
