import boot, sys
from pytype import config, load_pytd
from pytype.pyi import parser
from pytype.pytd import optimize, pytd_utils, visitors
src = '''
from typing import Any, Callable, Optional, Union, TypeVar
_T0 = TypeVar('_T0')
class A: ...
class B(A): ...
class C(A): ...
x1: Union[list[int], list[str], tuple[int, str], tuple[int]]
x2: Union[tuple[int, str], tuple[str, ...], B, A]
x3: Union[Callable[[int], str], Callable[[int, int], int], dict[str, int], dict[int, B]]
x4: Union[int, str, float, bytes, None, A, list[int], set[int], dict[int, int]]
x5: Union[list[Union[B, C]], list[A], object]
x6: Union[list[list[int]], list[list[str]], list[tuple[int, int]], list[tuple[str]]]
def f(a: int) -> int: ...
def f(a: int) -> str: ...
def f(a: str) -> Union[B, C, A]: ...
def g(a: Union[B, A], b: Union[list[B], list[C]] = ...) -> object: ...
class D:
  def m(self, x: int) -> list[int]: ...
  def m(self, x: int) -> list[str]: ...
'''
opts = config.Options.create(python_version=(3,12))
loader = load_pytd.create_loader(opts)
open("/tmp/scr/m.pyi","w").write(src)
ast = loader.load_file("m", "/tmp/scr/m.pyi")
ast = loader.finish_and_verify_ast(ast)
deps = loader.concat_all()
for kw in [dict(lossy=False, use_abcs=False, max_union=7, remove_mutable=False), dict(lossy=True, use_abcs=True, max_union=4, remove_mutable=True)]:
  o1 = optimize.Optimize(ast, deps, **kw)
  o2 = optimize.Optimize(o1, deps, **kw)
  print(kw); print(pytd_utils.Print(o1)); print("IDEMPOTENT:", pytd_utils.Print(o1) == pytd_utils.Print(o2), pytd_utils.ASTeq(o1, o2))
  if pytd_utils.Print(o1) != pytd_utils.Print(o2): print(pytd_utils.Print(o2))
