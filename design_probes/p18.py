import sys, itertools, dataclasses, copy
sys.path.insert(0, '/repo')
from pytype.rewrite.flow import conditions as C, variables as V, state as S

@dataclasses.dataclass(frozen=True)
class Atom(C.Condition):
    name: str
    def __repr__(self): return self.name
P, Q = Atom('p'), Atom('q')
ATOMS = [P, Q]
def ev(c, s):
    if c is C.TRUE or isinstance(c, C._True): return True
    if c is C.FALSE or isinstance(c, C._False): return False
    if isinstance(c, Atom): return s[c.name]
    if isinstance(c, C._Not): return not ev(c.condition, s)
    if isinstance(c, C._And): return all(ev(x, s) for x in c.conditions)
    if isinstance(c, C._Or): return any(ev(x, s) for x in c.conditions)
    raise TypeError(c)
VALS = [dict(zip('pq', bits)) for bits in itertools.product([False, True], repeat=2)]
def den(st, s):
    out = {}
    for n, var in st._locals.items():
        blk = n in st._locals_with_block_condition
        out[n] = frozenset(b.value for b in var.bindings if ev(b.condition, s) and (ev(st._condition, s) if blk else True))
    return out
def key(st):
    return (tuple(sorted((n, v.bindings) for n, v in st._locals.items())), st._condition, frozenset(st._locals_with_block_condition))
def clone(st): return st.merge_into(None)
conds = [P, Q, C.Not(P), C.Not(Q)]
names = ['x', 'y']; values = [1, 2]
start = S.BlockState({})
states = {key(start): start}
frontier = [start]
DEPTH = int(sys.argv[1]) if len(sys.argv) > 1 else 3
bad_inv = 0
for d in range(DEPTH):
    new = []
    pool = list(states.values())
    for st in frontier:
        succ = []
        for n in names:
            for v in values:
                s2 = clone(st); s2.store_local(n, V.Variable.from_value(v)); succ.append(s2)
            for m in names:
                if m in st._locals:
                    s2 = clone(st); s2.store_local(n, s2.load_local(m)); succ.append(s2)
        for c in conds:
            succ.append(st.with_condition(c))
        for other in pool[:60]:
            succ.append(st.merge_into(other)); succ.append(other.merge_into(st))
        for s2 in succ:
            k = key(s2)
            if k not in states:
                states[k] = s2; new.append(s2)
    frontier = new
    print("depth", d + 1, "states", len(states), file=sys.stderr)
# invariant: explicit conditions imply block condition
for st in states.values():
    for n, var in st._locals.items():
        if n not in st._locals_with_block_condition:
            for b in var.bindings:
                for s in VALS:
                    if ev(b.condition, s) and not ev(st._condition, s): bad_inv += 1
print("states", len(states), "invariant violations", bad_inv)
sl = list(states.values())
viol = 0; pairs = 0; nontriv = 0
for a in sl[:400]:
    for b in sl[:400]:
        m = a.merge_into(b); pairs += 1
        if key(a) != key(b): nontriv += 1
        for s in VALS:
            da, db, dm = den(a, s), den(b, s), den(m, s)
            for n in set(da) | set(db) | set(dm):
                want = da.get(n, frozenset()) | db.get(n, frozenset())
                if dm.get(n, frozenset()) != want:
                    viol += 1
                    if viol <= 5: print("VIOL", a, "||", b, "=>", m, s, n, dm.get(n), want)
print("pairs", pairs, "nontrivial", nontriv, "violations", viol)
