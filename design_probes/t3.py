import boot
from pytype.typegraph import cfg
def build(query_mid):
    p = cfg.Program()
    n0 = p.NewCFGNode("n0")
    n1 = n0.ConnectNew("n1")
    n2 = n0.ConnectNew("n2")   # sibling branch
    v = p.NewVariable()
    w = p.NewVariable()
    d = "D"
    b = v.AddBinding(d, [], n1)
    c = w.AddBinding(d, [], n2)   # same data, other var, at n2
    r = []
    if query_mid:
        r.append(b.IsVisible(n2))   # False: n1 not before n2
    v.PasteBinding(c)   # where=None: copy origins → b gains origin at n2
    r.append(b.IsVisible(n2))
    return r
print("with mid query:", build(True))
print("fresh:", build(False))

def build2(query_mid):
    p = cfg.Program()
    n0 = p.NewCFGNode("n0")
    n1 = n0.ConnectNew("n1")
    n2 = n1.ConnectNew("n2")
    x = p.NewVariable()
    a = x.AddBinding("a", [], n0)
    y = p.NewVariable()
    yb = y.AddBinding("y", [], n0)
    cond = p.NewVariable()
    cb = cond.AddBinding("c", [], n2)  # condition only assigned later → unsatisfiable at n1
    r=[]
    if query_mid: r.append(n2.HasCombination([a]))
    n1.condition = cb
    r.append(n2.HasCombination([a]))
    return r
print("cond with mid query:", build2(True))
print("cond fresh:", build2(False))
