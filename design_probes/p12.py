import boot, copy, ast as pyast
from pytype import io, config, load_pytd
from pytype.imports import pickle_utils
from pytype.pytd import serialize_ast, pytd_utils, visitors
from pytype.tools.merge_pyi import merge_pyi
src = '''
from typing import Optional, List
def f(a, b=2, *args, k=None, **kw):
  return [a, b]
class A:
  k = 1
  def __init__(self, p: int): self.p = p
  def m(self, q=None):
    def inner(z): return z
    return q or self.p
  @property
  def pr(self): return "s"
  @staticmethod
  def sm(x): return (x, 1)
class B(A):
  def __call__(self, *args, **kw): return args
x = f(1.0)
y, z = 1, "a"
w: Optional[int] = None
fn = lambda u: u
'''
opts = config.Options.create(python_version=(3,12), module_name="modA")
ret, pyi = io.generate_pyi(src, opts)
loader = ret.context.loader
ast = serialize_ast.PrepareForExport("modA", ret.ast, loader) if hasattr(serialize_ast, "PrepareForExport") else ret.ast
b = pickle_utils.Serialize(ast)
d = pickle_utils.DecodeAst(b)
b2 = pickle_utils.Encode(d)
b3 = pickle_utils.Serialize(d.ast)
ref = ast.Visit(visitors.ClearClassPointers()).Visit(visitors.CanonicalOrderingVisitor())
print("len", len(b), "re-encode equal:", b2 == b, "re-serialize equal:", b3 == b, "ASTeq:", pytd_utils.ASTeq(d.ast, ref))
# C20
merged = merge_pyi.merge_sources(py=src, pyi=pyi)
print(merged)
def strip(tree, added_ok=False):
    class S(pyast.NodeTransformer):
        def visit_arg(self, n): n.annotation = None; return n
        def visit_FunctionDef(self, n): self.generic_visit(n); n.returns = None; return n
        visit_AsyncFunctionDef = visit_FunctionDef
        def visit_AnnAssign(self, n):
            if n.value is None: return None
            return pyast.copy_location(pyast.Assign(targets=[n.target], value=n.value), n)
        def visit_ImportFrom(self, n): return None if n.module == "typing" else n
    t = S().visit(tree)
    t.body = [s for s in t.body if not (isinstance(s, pyast.Assign) and isinstance(s.value, pyast.Call) and getattr(s.value.func, "id", "") == "TypeVar")]
    return pyast.dump(t)
print("C20 strip-equal:", strip(pyast.parse(merged)) == strip(pyast.parse(src)))
