import boot, inspect
from pytype import io, config
opts = config.Options.create(python_version=(3,12))
src = '''
class K0: pass
class K1: pass
class K2: pass
class K3: pass
class D0: pass
class D1: pass
def f(a, b=D0(), /, c=D1(), *args, e, **kw): return (a, b, c, args, e, kw)
r0 = f(K0(), e=K1())
r1 = f(K0(), K1(), K2(), K3(), K0(), e=K1(), z=K2(), y=K3())
r2 = f(K0(), c=K2(), e=K3())
class C:
  def __init__(self, p, q=D0()): self.got = (p, q)
  def m(self, p, *, q=D1()): return (self, p, q)
  @classmethod
  def cm(cls, p): return (cls, p)
  @staticmethod
  def sm(p, q=D0()): return (p, q)
r3 = C(K0()).got
r4 = C(K0(), q=K1()).m(K2())
r5 = C.cm(K3())
r6 = C(K1()).sm(q=K2(), p=K3())
'''
ret, pyi = io.generate_pyi(src, opts)
print("\n".join(l for l in pyi.split("\n") if l.startswith("r")))
print([(e.name, e.line) for e in ret.context.errorlog])
g = {}; exec(src, g)
for k in ("r0","r1","r2","r3","r4","r5","r6"):
    def tn(v):
        if isinstance(v, tuple): return "(" + ", ".join(tn(x) for x in v) + ")"
        if isinstance(v, dict): return "{" + ", ".join(sorted(set(tn(x) for x in v.values()))) + "}"
        if isinstance(v, type): return "type[%s]" % v.__name__
        return type(v).__name__
    print(k, tn(g[k]))
