import sys, os, tempfile, re, itertools
import boot
from pytype import module_utils
from pytype.tools.analyze_project import pytype_runner, parse_args
Module = module_utils.Module
def conf(out, inputs):
    parser = parse_args.make_parser()
    c = parser.config_from_defaults()
    c.output = out; c.inputs = inputs
    return c
root = tempfile.mkdtemp(prefix="my proj $x:")
out = os.path.join(root, "out dir")
os.makedirs(out)
mods = {n: Module(root + "/", f"{n}.py", n, "Local") for n in "abcde"}
sysm = Module("/usr/lib/", "os.py", "os", "System")
# e <- d <- {b <-> c cycle} <- a ; a also imports os
sorted_sources = [((sysm,), ()), ((mods["e"],), ()), ((mods["d"],), (mods["e"],)), ((mods["b"], mods["c"]), (mods["d"],)), ((mods["a"],), (mods["b"], mods["c"], sysm))]
c = conf(out, [mods["a"].full_path, mods["c"].full_path])
r = pytype_runner.PytypeRunner(c, sorted_sources)
files = r.setup_build()
txt = open(os.path.join(out, "build.ninja")).read()
print(txt[-1800:])
for f in sorted(os.listdir(os.path.join(out, "imports"))):
    print("==", f); print(open(os.path.join(out, "imports", f)).read())
