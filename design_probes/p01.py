import boot, sys, types
from pytype import io, config
from pytype.pytd import pytd
opts = config.Options.create(python_version=(3,12))
NUM = {"builtins.float": (int, float), "builtins.complex": (int, float, complex), "builtins.int": (int,), "builtins.bool": (bool,)}
BUILTIN = {"builtins.str": str, "builtins.bytes": bytes, "builtins.list": list, "builtins.dict": dict, "builtins.set": set, "builtins.frozenset": frozenset, "builtins.tuple": tuple, "builtins.object": object, "builtins.type": type, "builtins.range": range}
def admits(t, v, mod):
    if isinstance(t, pytd.AnythingType): return True
    if isinstance(t, pytd.NothingType): return False
    if isinstance(t, pytd.UnionType): return any(admits(x, v, mod) for x in t.type_list)
    if isinstance(t, pytd.TypeParameter): return True
    if isinstance(t, pytd.Annotated): return admits(t.base_type, v, mod)
    if isinstance(t, pytd.Literal): return True
    if isinstance(t, (pytd.ClassType, pytd.NamedType)):
        n = t.name
        if n in ("builtins.NoneType", "NoneType"): return v is None
        if n in NUM: return isinstance(v, NUM[n]) and (n != "builtins.int" or True)
        if n in BUILTIN: return isinstance(v, BUILTIN[n])
        if n == "typing.Callable" or n == "builtins.function": return callable(v)
        # user class
        short = n.split(".")[-1]
        return any(c.__name__ == short for c in type(v).__mro__) or "UNMODELLED:" + n
    if isinstance(t, pytd.TupleType):
        return isinstance(v, tuple) and len(v) == len(t.parameters) and all(admits(p, x, mod) is True or admits(p, x, mod) for p, x in zip(t.parameters, v))
    if isinstance(t, pytd.CallableType): return callable(v)
    if isinstance(t, pytd.GenericType):
        b = t.base_type.name
        if b == "builtins.type": 
            return isinstance(v, type)
        if b in ("builtins.list", "builtins.set", "builtins.frozenset", "builtins.tuple"):
            return isinstance(v, BUILTIN[b]) and all(admits(t.parameters[0], x, mod) for x in v)
        if b == "builtins.dict":
            return isinstance(v, dict) and all(admits(t.parameters[0], k, mod) and admits(t.parameters[1], x, mod) for k, x in v.items())
        return "UNMODELLED:" + b
    return "UNMODELLED:" + type(t).__name__
def check(src):
    ret, pyi = io.generate_pyi(src, opts)
    ast = ret.ast
    g = {"__name__": "m"}
    exec(compile(src, "m", "exec"), g)
    consts = {c.name: c.type for c in ast.constants}
    classes = {c.name: c for c in ast.classes}
    funcs = {f.name for f in ast.functions}
    aliases = {a.name for a in ast.aliases}
    out = []
    for name, val in g.items():
        if name.startswith("__"): continue
        if isinstance(val, type):
            if name not in classes and name not in consts and name not in aliases: out.append(("class missing", name))
            continue
        if isinstance(val, types.FunctionType):
            if name not in funcs and name not in consts and name not in aliases: out.append(("func missing", name))
            continue
        if name not in consts:
            out.append(("MISSING", name, repr(val)[:40])); continue
        r = admits(consts[name], val, ast)
        if r is not True: out.append(("NOT ADMITTED" if r is False else r, name, repr(val)[:40], str(consts[name])[:80]))
        # instance attrs
        cls = classes.get(type(val).__name__)
        if cls is not None:
            decl = {}
            for c in type(val).__mro__:
                pc = classes.get(c.__name__)
                if pc:
                    for k in pc.constants: decl.setdefault(k.name, k.type)
            for k, x in vars(val).items():
                if k not in decl: out.append(("ATTR MISSING", name, k))
                else:
                    r = admits(decl[k], x, ast)
                    if r is not True: out.append(("ATTR NOT ADMITTED", name, k, repr(x)[:30], str(decl[k])[:60]))
    return out, pyi
progs = [
'''
def f(a, b=None):
  if b is None:
    b = []
  b.append(a)
  return b
x = f(1)
y = f("s", x)
z = x if len(y) > 5 else None
w = [q for q in (1, "a", None)]
''',
'''
class A:
  c = 1
  def __init__(self, v):
    self.v = v
    if v: self.w = "s"
    else: self.w = None
  def set(self, n): self.late = n; return self
class B(A):
  c = "x"
  def __init__(self): A.__init__(self, 0); self.own = (1, 2.0)
a = A(1); b = B(); a2 = A("q").set([1])
t = (a.c, b.c, b.v, b.w)
u = {k: v for k, v in (("a", 1), ("b", None))}
b.v = "changed"
''',
'''
def pick(flag):
  if flag: return 1
  elif flag is None: return None
  return "s"
r = [pick(True), pick(False), pick(None)]
s = r[0] or r[1]
d = {}
d[1] = "a"; d["k"] = 2.0
e = d.get(1)
m = max([1, 2.5])
n = not r
o = r and r[2]
p = {1, "a"} | {2.0}
try:
  q = int("zz")
except ValueError:
  q = None
def g(*args, **kw): return args, kw
gg = g(1, "a", k=2.0)
h = (lambda a, b=2: (a, b))("x")
''',
'''
x = 1
def bump():
  global x
  x = "s"
bump()
class C:
  items = []
  def add(self, i): self.items.append(i)
c = C(); c.add(1); c.add("a")
its = C.items
def deco(f): return f
@deco
def k(): return 3
kk = k()
val = 3 if its else 2.0
nested = [[1], ["a", None]]
first = nested[1][1]
def outer():
  def inner(): return b"b"
  return inner
fn = outer(); res = fn()
''',
]
for p in progs:
    out, pyi = check(p)
    print(out)
    if out: print(pyi)
