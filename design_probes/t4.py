import boot
from pytype.tools.merge_pyi import merge_pyi
py = '''
import os
x = os.foo()
def f(a, b):
  return a
class A:
  y = os.bar
  def m(self, q): return q
'''
pyi = '''
from typing import Any, Never
x: Any
def f(a: Any, b: int) -> Any: ...
class A:
  y: Any
  def m(self, q) -> Never: ...
'''
print(merge_pyi.merge_sources(py=py, pyi=pyi))
