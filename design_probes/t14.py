import boot
from pytype import io, config
opts = config.Options.create(python_version=(3,12))
for s in ["import collections.abc\nx = collections.abc.Mapping\n", "from collections.abc import Mapping\n", "import collections\nclass A(collections.abc.MutableMapping): pass\n"]:
  try:
    res, pyi = io.generate_pyi(s, opts); print("OK", repr(pyi[:80]), [(e.name, e.line) for e in res.context.errorlog])
  except Exception as e: print("EXC", type(e).__name__, str(e)[:100])
