import boot, sys
from pytype import io, config
opts = config.Options.create(python_version=(3,12))
src = '''
class A:
  x = 1
class B(A):
  x = "s"
class C(A, A): pass
class D(A, B): pass
class E(B, A): pass
class F(object, A): pass
class G(A, object): pass
class X: pass
class Y: pass
class P(X, Y): x = 1.0
class Q(Y, X): x = None
class R(P, Q): pass
class S(E, G):
  pass
s = S.x
s2 = S().x
'''
res, pyi = io.generate_pyi(src, opts)
lines = src.split("\n")
for e in res.context.errorlog:
  print(e.name, e.line, lines[e.line-1], "|", e.message.split("\n")[0])
print(pyi)
for l in src.split("\n"):
  pass
g = {}
for stmt in ["class A: pass", "class B(A): pass", "class C(A, A): pass", "class D(A, B): pass", "class E(B,A): pass", "class F(object, A): pass", "class G(A, object): pass"]:
  try: exec(stmt, g)
  except TypeError as e: print(stmt, "->", e)
