import boot, sys, glob, os, collections
from pytype.pyc import pyc, opcodes
from pytype.blocks import blocks
from pytype import config
def all_codes(oc, seen=None):
    yield oc
    for c in oc.consts:
        if isinstance(c, blocks.OrderedCode):
            yield from all_codes(c)
def check(oc):
    bad = []
    order = oc.order
    ids = [b.id for b in order]
    if len(set(ids)) != len(ids): bad.append("dup block id")
    if len(set(map(id, order))) != len(order): bad.append("dup block")
    seen_ops = {}
    first_ops = {}
    for b in order:
        if not b.code: bad.append("empty block"); continue
        if b.id != b.code[0].index: bad.append("id!=first index")
        first_ops[id(b.code[0])] = b
        for i, op in enumerate(b.code):
            if id(op) in seen_ops: bad.append("op in two blocks")
            seen_ops[id(op)] = b
            if i < len(b.code) - 1 and (op.no_next() or op.does_jump()) : bad.append(f"jump/no_next mid-block {op.name}")
            if i > 0 and b.code[i-1].index >= op.index: bad.append("index not increasing")
    for b in order:
        for op in b.code:
            if op.target is not None and id(op.target) not in first_ops: bad.append(f"target not block start {op.name}->{op.target.name}")
            if getattr(op, "block_target", None) is not None and id(op.block_target) not in first_ops: bad.append(f"block_target not block start {op.name}")
            if (op.has_known_jump() if hasattr(op, "has_known_jump") else False) and op.target is None: bad.append(f"unresolved jump {op.name}")
            if op.next is not None and id(op.next) in seen_ops and op.next.prev is not op: bad.append(f"next.prev mismatch {op.name}")
    # order: reachable & predecessor-before
    pos = {id(b): i for i, b in enumerate(order)}
    reach = set(); st = [order[0]]
    while st:
        b = st.pop()
        if id(b) in reach: continue
        reach.add(id(b)); st.extend(b.outgoing)
    if reach != set(pos): bad.append(f"order != reachable ({len(reach)} vs {len(pos)})")
    for b in order[1:]:
        if not any(id(p) in pos and pos[id(p)] < pos[id(b)] for p in b.incoming): bad.append("no predecessor before block")
    for b in order:
        for o in b.outgoing:
            if b not in o.incoming: bad.append("edge asym")
    return bad
files = sorted(glob.glob("/root/.pyenv/versions/3.12.1/lib/python3.12/**/*.py", recursive=True))
files = [f for f in files if "/test/" not in f and "lib2to3/tests" not in f and "site-packages" not in f][:int(sys.argv[1])]
opts = config.Options.create(python_version=(3,12))
n = 0; nbad = collections.Counter(); nfiles = 0; skipped = 0
for f in files:
    src = open(f, encoding="utf8", errors="replace").read()
    try:
        code = pyc.compile_src(src, f, (3,12), None)
    except Exception as e:
        skipped += 1; continue
    oc, bg = blocks.process_code(code)
    nfiles += 1
    for c in all_codes(oc):
        n += 1
        for b in set(check(c)): nbad[b] += 1; 
print("files", nfiles, "skipped", skipped, "code objects", n); print(nbad.most_common(20))
# show one example of each
shown = set()
for f in files:
    src = open(f, encoding="utf8", errors="replace").read()
    code = pyc.compile_src(src, f, (3,12), None)
    oc, bg = blocks.process_code(code)
    for c in all_codes(oc):
        for b in set(check(c)):
            k = b.split(" ")[0] + b.split(" ")[-1]
            if k in shown or len(list(c.code_iter)) > 80: continue
            shown.add(k)
            print("=====", b, f, c.qualname, c.firstlineno)
            for blk in c.order:
                print(" block", blk.id, "in", sorted(x.id for x in blk.incoming), "out", sorted(x.id for x in blk.outgoing))
                for op in blk.code:
                    print("   ", op.index, op.line, op.name, ("-> %d" % op.target.index) if op.target else "", ("bt %d" % op.block_target.index) if getattr(op, "block_target", None) else "")
    if len(shown) >= 3: break
