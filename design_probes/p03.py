import boot, sys
from pytype import io, config
opts = config.Options.create(python_version=(3,12))
def run(src):
    res = io.check_py(src, opts)
    return [(e.name, e.line) for e in res.context.errorlog.unique_sorted_errors()]
base = '''
def f(a, b): return a
x = f("s".foo,
      "t".bar)
y = f(1,
      "t".baz)
def g() -> int:
  if x:
    return 1
z = [1,
     2].qux
'''
print("base", run(base))
lines = base.split("\n")
def with_comment(i, c): 
    l = list(lines); l[i-1] = l[i-1] + "  # " + c; return "\n".join(l)
for ln in (3, 4, 6, 9, 11):
    print("disable attr/bad-return on", ln, run(with_comment(ln, "pytype: disable=attribute-error,bad-return-type")))
