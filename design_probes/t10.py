import sys; sys.path.insert(0, '/repo')
from pytype.pytd import pytd
a = pytd.UnionType((pytd.NamedType("int"), pytd.NamedType("str")))
b = pytd.UnionType((pytd.NamedType("str"), pytd.NamedType("int")))
print(a == b, hash(a) == hash(b), len({a, b}))
g1 = pytd.GenericType(pytd.NamedType("list"), (a,)); g2 = pytd.GenericType(pytd.NamedType("list"), (b,))
print(g1 == g2, hash(g1) == hash(g2), len({g1, g2}))
