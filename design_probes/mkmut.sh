#!/bin/bash
# usage: mkmut.sh name 'sed-expr' file
set -e
name=$1; expr=$2; file=$3
rm -rf mut_$name && mkdir -p mut_$name/pytype/typegraph && cp /repo/pytype/typegraph/*.cc /repo/pytype/typegraph/*.h mut_$name/pytype/typegraph/
sed -i "$expr" mut_$name/pytype/typegraph/$file
diff <(cat /repo/pytype/typegraph/$file) mut_$name/pytype/typegraph/$file | head -5
PYINC=$(/venv/bin/python -c "import sysconfig; print(sysconfig.get_paths()['include'])")
cd mut_$name
for f in cfg cfg_logging pylogging reachable solver typegraph; do g++ -O1 -std=c++20 -fPIC -fvisibility=hidden -I$PYINC -I$(/venv/bin/python -c "import pybind11; print(pybind11.get_include())") -I. -c pytype/typegraph/$f.cc -o $f.o & done; wait
g++ -shared -o cfg.cpython-312-x86_64-linux-gnu.so *.o
