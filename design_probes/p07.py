import boot, random, itertools, sys
from pytype.typegraph import cfg

def build(spec):
    p = cfg.Program()
    nodes = [p.NewCFGNode(f"n{i}") for i in range(spec['n'])]
    for a, b in spec['edges']:
        nodes[a].ConnectTo(nodes[b])
    vars_ = [p.NewVariable() for _ in range(spec['nv'])]
    binds = []
    for (v, data, origins) in spec['bindings']:
        b = None
        for (where, ssets) in origins:
            for ss in ssets:
                if b is None:
                    b = vars_[v].AddBinding(data, [binds[i] for i in ss], nodes[where])
                else:
                    b.AddOrigin(nodes[where], [binds[i] for i in ss])
        binds.append(b)
    for n, c in spec.get('conds', {}).items():
        nodes[n].condition = binds[c]
    return p, nodes, vars_, binds

def ref(spec, strict_conds=False):
    preds = {i: [] for i in range(spec['n'])}
    for a, b in spec['edges']:
        if a != b and a not in preds[b]:
            preds[b].append(a)
    B = spec['bindings']
    origin_at = [{w: ss for (w, ss) in origins} for (_, _, origins) in B]
    var_of = [v for (v, _, _) in B]
    var_nodes = {}
    for i, (v, _, origins) in enumerate(B):
        for (w, _) in origins:
            var_nodes.setdefault(v, set()).add(w)
    conds = spec.get('conds', {})
    def expand(pos, goals):
        # yields (removed, remaining)
        results = []
        def rec(pending, seen, removed, remaining):
            if not pending:
                results.append((frozenset(removed), frozenset(remaining)))
                return
            g = min(pending)
            pending = pending - {g}
            if g in seen:
                rec(pending, seen, removed, remaining); return
            seen = seen | {g}
            if pos not in origin_at[g]:
                rec(pending, seen, removed, remaining | {g}); return
            for ss in origin_at[g][pos]:
                rec(pending | set(ss), seen, removed | {g}, remaining)
        init_remove = {g for g in goals if pos in origin_at[g]}
        rec(frozenset(init_remove), frozenset(), frozenset(), frozenset(goals - init_remove))
        return results
    sys.setrecursionlimit(10000)
    def explain(pos, goals, depth=0):
        goals = set(goals)
        if strict_conds and pos in conds:
            goals.add(conds[pos])
        for removed, remaining in expand(pos, goals):
            vs = [var_of[g] for g in removed]
            if len(vs) != len(set(vs)):
                continue
            if not remaining:
                return True
            blocked = set()
            for g in remaining:
                blocked |= var_nodes.get(var_of[g], set())
            if pos in blocked:
                continue
            for q in preds[pos]:
                if walk(q, frozenset(remaining), blocked):
                    return True
        return False
    def walk(pos, goals, blocked):
        # moving backwards through nodes: if pos binds a var of a goal (blocked) we must stop & resolve here
        if pos in blocked:
            # only allowed if some goal has an origin here (finish node); explain handles the rest
            if any(pos in origin_at[g] for g in goals):
                return explain(pos, goals)
            return False
        if strict_conds and pos in conds:
            return explain(pos, goals)
        for q in preds[pos]:
            if walk(q, goals, blocked):
                return True
        return False
    return explain

def rand_spec(rng, n, nv, nb, cyc=False, conds=False):
    edges = []
    for j in range(1, n):
        for i in range(j):
            if rng.random() < 0.45: edges.append((i, j))
    if cyc:
        for _ in range(rng.randint(0, 2)):
            a, b = rng.randrange(n), rng.randrange(n)
            if a > b: edges.append((a, b))
    bindings = []
    for v in range(nv):
        for d in range(rng.randint(1, nb)):
            origins = []
            for w in rng.sample(range(n), rng.randint(1, 2)):
                ssets = []
                for _ in range(rng.randint(1, 2)):
                    k = rng.randint(0, min(2, len(bindings)))
                    ssets.append(tuple(sorted(rng.sample(range(len(bindings)), k))))
                origins.append((w, sorted(set(ssets))))
            bindings.append((v, f"d{v}_{d}", origins))
    spec = dict(n=n, nv=nv, edges=edges, bindings=bindings)
    if conds:
        spec['conds'] = {nd: rng.randrange(len(bindings)) for nd in range(n) if rng.random() < 0.3}
    return spec

rng = random.Random(int(sys.argv[1]) if len(sys.argv) > 1 else 1)
mode = sys.argv[2] if len(sys.argv) > 2 else "dag"
N = int(sys.argv[3]) if len(sys.argv) > 3 else 3000
dis = tot = pos = 0
for it in range(N):
    spec = rand_spec(rng, rng.randint(2, 6), rng.randint(1, 3), 3, cyc=False, conds=(mode=="cond"))
    ex = ref(spec, strict_conds=(mode=="cond"))
    nb = len(spec['bindings'])
    for node in range(spec['n']):
        for k in (1, 2, 3):
            for S in itertools.combinations(range(nb), k):
                p, nodes, vars_, binds = build(spec)   # fresh program per query
                got = nodes[node].HasCombination([binds[i] for i in S])
                want = ex(node, frozenset(S))
                tot += 1; pos += got
                bad = (got != want) if mode == "dag" else (want and not got)
                if bad:
                    dis += 1
                    if dis <= 5: print("DISAGREE", spec, node, S, "real", got, "ref", want)
print("total", tot, "positives", pos, "disagreements", dis)
