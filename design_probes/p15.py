import boot, sys, os, glob, traceback, json, time, signal
from multiprocessing import Pool
def work(path):
    import boot
    from pytype import io, config
    from pytype.pyc import pyc
    from pytype.blocks import blocks
    src = open(path, encoding="utf8", errors="replace").read()
    out = dict(path=path, lines=src.count("\n"))
    t = time.time()
    def handler(signum, frame): raise TimeoutError()
    signal.signal(signal.SIGALRM, handler)
    signal.alarm(120)
    try:
        opts = config.Options.create(path, python_version=(3,12))
        opts.tweak(quick=True)
        res = io.check_or_generate_pyi(opts)
        errs = list(res.context.errorlog.unique_sorted_errors())
        nl = src.count("\n") + 1
        out["nerr"] = len(errs)
        out["badline"] = [(e.name, e.line, e.filename) for e in errs if not (e.filename == path and 1 <= e.line <= nl)][:5]
        out["status"] = "ok"
    except TimeoutError:
        out["status"] = "timeout"
    except BaseException as e:
        tb = traceback.extract_tb(e.__traceback__)
        fr = [f for f in tb if "/repo/pytype" in f.filename]
        out["status"] = "crash"; out["exc"] = type(e).__name__; out["msg"] = str(e)[:200]
        out["frame"] = (fr[-1].filename.replace("/repo/", ""), fr[-1].name, fr[-1].lineno) if fr else None
    finally:
        signal.alarm(0)
    out["t"] = round(time.time() - t, 1)
    return out
if __name__ == "__main__":
    files = sorted(glob.glob("/root/.pyenv/versions/3.12.1/lib/python3.12/*.py"), key=os.path.getsize)[int(sys.argv[2]) if len(sys.argv)>2 else 0:int(sys.argv[1])]
    with Pool(16, maxtasksperchild=4) as p:
        res = p.map(work, files, chunksize=1)
    import collections
    c = collections.Counter(r["status"] for r in res)
    print(c)
    for r in res:
        if r["status"] != "ok" or r.get("badline"): print(json.dumps(r)[:400])
    print("total time", sum(r["t"] for r in res))
