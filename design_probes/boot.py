import sys, importlib.util, importlib.machinery, glob
sys.path.insert(0, '/repo')
import pytype.typegraph
import os; so = glob.glob(os.environ.get('CFG_DIR', '/tmp/scr/build') + '/cfg*.so')[0]
spec = importlib.util.spec_from_file_location('pytype.typegraph.cfg', so)
m = importlib.util.module_from_spec(spec)
spec.loader.exec_module(m)
sys.modules['pytype.typegraph.cfg'] = m
pytype.typegraph.cfg = m
