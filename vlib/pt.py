"""pytd helpers: parse stub text, resolve it with the real loader, print."""

import glob
import os

from vlib import boot

PYVER = (3, 12)


def _m():
  boot.ensure()
  from pytype import config, load_pytd
  from pytype.pyi import parser
  from pytype.pytd import pytd_utils, visitors
  return config, load_pytd, parser, pytd_utils, visitors


def pyi_options():
  _, _, parser, _, _ = _m()
  return parser.PyiOptions(python_version=PYVER)


def parse(text, name="m"):
  _, _, parser, _, _ = _m()
  return parser.parse_string(text, name=name, options=pyi_options())


_OPTS = None


def options():
  global _OPTS
  if _OPTS is None:
    config = _m()[0]
    _OPTS = config.Options.create("m.py", python_version=PYVER)
  return _OPTS


def new_loader():
  _, load_pytd, _, _, _ = _m()
  return load_pytd.create_loader(options())


def load_resolved(text, name="m", loader=None):
  """Parse + resolve against builtins with a fresh loader. -> (ast, loader)."""
  loader = loader or new_loader()
  ast = parse(text, name)
  ast = loader.load_file(name, name + ".pyi", mod_ast=ast)
  ast = loader.finish_and_verify_ast(ast)
  return ast, loader


def Print(ast):
  return _m()[3].Print(ast)


def bundled_stub_files():
  root = os.path.join(boot.REPO, "pytype", "stubs")
  out = []
  for path in sorted(glob.glob(os.path.join(root, "**", "*.pytd"),
                               recursive=True)):
    rel = os.path.relpath(path, root)
    parts = rel[:-5].split(os.sep)[1:]
    if parts[-1] == "__init__":
      parts = parts[:-1]
    out.append((".".join(parts), path))
  return out
