"""Hypothesis strategies producing stub (.pyi) text in the dialect pytype emits.

stub(features) -> text.  The text always parses with pytype's stub parser and
resolves against builtins/typing (all names used are defined or imported).
"""

from hypothesis import strategies as st

SCALARS = ["int", "float", "complex", "bool", "str", "bytes", "None", "Any",
           "object"]
TYPING_NAMES = ["Any", "Callable", "Optional", "Union", "Literal", "TypeVar",
                "Generic", "Annotated", "overload"]
LITERALS = ["1", "2", "0", "-1", "'a'", "'b'", "''", "b'x'", "True", "False",
            "None"]


class Ctx:
  """What is in scope while a type is generated."""

  def __init__(self, classes, typevars=(), allow_any=True, allow_object=True,
               allow_none=True):
    self.classes = list(classes)
    self.typevars = list(typevars)
    self.allow_any = allow_any
    self.allow_object = allow_object
    self.allow_none = allow_none


@st.composite
def type_expr(draw, ctx, depth=2):
  """A type expression as text."""
  leafs = [s for s in SCALARS
           if (s != "Any" or ctx.allow_any) and
           (s != "object" or ctx.allow_object) and
           (s != "None" or ctx.allow_none)]
  leafs = leafs + list(ctx.classes) + list(ctx.classes) + list(ctx.typevars)
  if depth <= 0:
    return draw(st.sampled_from(leafs))
  kind = draw(st.sampled_from(
      ["leaf", "leaf", "leaf", "optional", "union", "union", "list", "set",
       "frozenset", "dict", "type", "tuple_h", "tuple_f", "callable",
       "callable_any", "literal", "bigunion"]))
  sub = lambda: draw(type_expr(ctx, depth - 1))
  if kind == "leaf":
    return draw(st.sampled_from(leafs))
  if kind == "optional":
    t = sub()
    if t in ("None", "Any", "object"):
      return t
    return "Optional[%s]" % t
  if kind in ("union", "bigunion"):
    n = draw(st.integers(2, 4) if kind == "union" else st.integers(5, 9))
    ms = []
    for _ in range(n):
      ms.append(draw(type_expr(ctx, depth - 1 if kind == "union" else 0)))
    return "Union[%s]" % ", ".join(ms)
  if kind in ("list", "set", "frozenset"):
    return "%s[%s]" % (kind, sub())
  if kind == "dict":
    return "dict[%s, %s]" % (sub(), sub())
  if kind == "type":
    cands = list(ctx.classes) + ["int", "str", "float"]
    return "type[%s]" % draw(st.sampled_from(cands))
  if kind == "tuple_h":
    return "tuple[%s, ...]" % sub()
  if kind == "tuple_f":
    n = draw(st.integers(0, 3))
    if n == 0:
      return "tuple[()]"
    return "tuple[%s]" % ", ".join(sub() for _ in range(n))
  if kind == "callable":
    n = draw(st.integers(0, 3))
    return "Callable[[%s], %s]" % (", ".join(sub() for _ in range(n)), sub())
  if kind == "callable_any":
    return "Callable[..., %s]" % sub()
  if kind == "literal":
    vals = draw(st.lists(st.sampled_from(LITERALS), min_size=1, max_size=3,
                         unique=True))
    return "Literal[%s]" % ", ".join(vals)
  raise AssertionError(kind)


def split_top(s):
  """Split a parameter list at top-level commas."""
  out, cur, depth = [], [], 0
  for ch in s:
    if ch in "[(":
      depth += 1
    elif ch in "])":
      depth -= 1
    if ch == "," and depth == 0:
      out.append("".join(cur).strip())
      cur = []
    else:
      cur.append(ch)
  if "".join(cur).strip():
    out.append("".join(cur).strip())
  return out


@st.composite
def signature(draw, ctx, name, first=None, depth=2, simple=False,
              mutations=False, body_indent=""):
  """One `def name(...) -> R: ...` line (without decorators/indent)."""
  params = []
  if first:
    params.append(first)
  npos_only = 0 if simple else draw(st.integers(0, 2))
  npos = draw(st.integers(0, 3))
  nkw = 0 if simple else draw(st.integers(0, 2))
  names = iter(["a", "b", "c", "d", "e", "g", "h", "i"])
  default_started = False

  def param(nm, force_default=False):
    nonlocal default_started
    annotated = draw(st.integers(0, 9)) < 8
    s = nm
    if annotated:
      s += ": " + draw(type_expr(ctx, depth))
    has_default = force_default or default_started or draw(
        st.integers(0, 9)) < 3
    if has_default:
      default_started = True
      s += " = ..."
    return s

  for _ in range(npos_only):
    params.append(param(next(names)))
  if npos_only:
    params.append("/")
  for _ in range(npos):
    params.append(param(next(names)))
  star = draw(st.sampled_from(["none", "none", "args", "typed_args"]))
  if simple:
    star = "none"
  if star == "args":
    params.append("*args")
  elif star == "typed_args":
    params.append("*args: " + draw(type_expr(ctx, 1)))
  if nkw:
    if star == "none":
      params.append("*")
    for _ in range(nkw):
      default_started = False
      params.append(param(next(names)))
  kw = "none" if simple else draw(
      st.sampled_from(["none", "none", "kw", "typed_kw"]))
  if kw == "kw":
    params.append("**kwargs")
  elif kw == "typed_kw":
    params.append("**kwargs: " + draw(type_expr(ctx, 1)))
  if params and params[-1] == "/" and first and len(params) == 2:
    params.pop()
  ret = draw(type_expr(ctx, depth))
  if mutations and params:
    # pytd's "mutated parameter" syntax: the body assigns the parameter the
    # type it has after the call
    cands = [p.split(":")[0].split(" ")[0] for p in params
             if ":" in p and p[0] not in "*/" and "= ..." not in p and
             p.split(":")[0] not in ("self", "cls")]
    if cands and draw(st.integers(0, 9)) < 4:
      nm = draw(st.sampled_from(cands))
      return "def %s(%s) -> %s:\n%s    %s = %s" % (
          name, ", ".join(params), ret, body_indent, nm,
          draw(type_expr(Ctx(ctx.classes, []), depth)))
  return "def %s(%s) -> %s: ..." % (name, ", ".join(params), ret)


@st.composite
def function_group(draw, ctx, name, first=None, indent="", depth=2,
                   mutations=False, same_params=False):
  n = draw(st.sampled_from([1, 1, 1, 2, 3]))
  lines = []
  base = None
  for _ in range(n):
    sig = draw(signature(ctx, name, first=first, depth=depth,
                         mutations=mutations, body_indent=indent))
    if same_params and base is not None and draw(st.booleans()):
      # reuse the first overload's parameter list (so that overloads differ
      # only in return type / mutation and can be merged)
      head = base.split(") -> ")[0]
      ret = sig.split(") -> ", 1)[1].split(":")[0]
      plist = head.split("(", 1)[1]
      cands = [p.split(":")[0] for p in split_top(plist)
               if ":" in p and "= ..." not in p and p[0] not in "*/" and
               "[" not in p.split(":")[0] and
               p.split(":")[0] not in ("self", "cls")]
      # (parameters whose annotation contains a comma are skipped above
      #  because the naive split would cut them)
      cands = [c for c in cands if c.isidentifier()]
      if cands and draw(st.booleans()):
        sig = "%s) -> %s:\n%s    %s = %s" % (
            head, ret, indent, draw(st.sampled_from(cands)),
            draw(type_expr(Ctx(ctx.classes, []), depth)))
      else:
        sig = "%s) -> %s: ..." % (head, ret)
    if base is None:
      base = sig
    if n > 1:
      lines.append(indent + "@overload")
    lines.append(indent + sig)
  return lines


@st.composite
def stub(draw, max_classes=4, max_consts=5, max_funcs=4, depth=2,
         typevars=True, aliases=True, any_in_consts=True, mutations=False):
  nclasses = draw(st.integers(0, max_classes))
  class_names = ["K%d" % i for i in range(nclasses)]
  tvs = ["_T0", "_T1"] if typevars else []
  body = []
  # classes first (so that every later reference is to a defined class)
  generic_classes = {}
  for i, cn in enumerate(class_names):
    earlier = class_names[:i]
    nb = draw(st.integers(0, min(2, len(earlier))))
    bases = []
    if nb:
      # keep a C3-consistent order: bases in decreasing definition order
      picked = draw(st.lists(st.sampled_from(earlier), min_size=nb,
                             max_size=nb, unique=True))
      bases = sorted(picked, key=earlier.index, reverse=True)
      # drop a base that is an ancestor of another picked base: always legal
    is_generic = typevars and draw(st.integers(0, 9)) < 2
    header_bases = list(bases)
    if is_generic:
      header_bases.append("Generic[_T0]")
      generic_classes[cn] = True
    cctx = Ctx(class_names[:i + 1], ["_T0"] if is_generic else [])
    mctx = Ctx(class_names[:i + 1], tvs if typevars else [])
    lines = []
    if draw(st.integers(0, 9)) < 2:
      lines.append("    class Inner%d:" % i)
      lines.append("        z: %s" % draw(type_expr(Ctx([]), 1)))
    for j in range(draw(st.integers(0, 3))):
      t = draw(type_expr(cctx, depth))
      if draw(st.integers(0, 9)) < 2:
        t = "Annotated[%s, 'property']" % t
      lines.append("    a%d: %s" % (j, t))
    for j in range(draw(st.integers(0, 3))):
      kind = draw(st.sampled_from(["m", "m", "m", "static", "class"]))
      if kind == "m":
        lines += draw(function_group(mctx, "m%d" % j, first="self",
                                     indent="    ", depth=depth))
      elif kind == "static":
        lines.append("    @staticmethod")
        lines.append("    " + draw(signature(mctx, "s%d" % j, depth=depth)))
      else:
        lines.append("    @classmethod")
        lines.append("    " + draw(signature(mctx, "c%d" % j, first="cls",
                                             depth=depth)))
    head = "class %s%s:" % (cn, "(%s)" % ", ".join(header_bases)
                            if header_bases else "")
    if not lines:
      head += " ..."
    body.append("\n".join([head] + lines))
  gctx = Ctx(class_names, [], allow_any=any_in_consts)
  ftvs = list(tvs)
  bound_cls = class_names[0] if class_names else "int"
  if typevars and draw(st.integers(0, 9)) < 3:
    # bounded / constrained TypeVars, as pytype emits for cls/self types
    ftvs += ["_TB", "_TB", "_TC"]
  fctx = Ctx(class_names, ftvs)
  consts = []
  for i in range(draw(st.integers(0, max_consts))):
    consts.append("x%d: %s" % (i, draw(type_expr(gctx, depth))))
  alias_lines = []
  if aliases:
    for i in range(draw(st.integers(0, 2))):
      # `X = None` reads back as a constant, and pytype prints a None-valued
      # name as `X: None`, so aliases that could normalise to None are not
      # part of the emitted dialect.
      t = draw(type_expr(Ctx(class_names, [], allow_none=False), 1))
      if t.startswith("Literal[") and "None" in t:
        t = "int"
      alias_lines.append("Alias%d = %s" % (i, t))
  funcs = []
  for i in range(draw(st.integers(0, max_funcs))):
    funcs += draw(function_group(fctx, "f%d" % i, depth=depth,
                                 mutations=mutations, same_params=mutations))
  text = "\n\n".join(["\n".join(alias_lines), "\n".join(consts)] + body +
                     ["\n".join(funcs)])
  used = [n for n in TYPING_NAMES if n in text]
  header = []
  if "_T0" in text or "_T1" in text or "_TB" in text or "_TC" in text:
    if "TypeVar" not in used:
      used.append("TypeVar")
  if used:
    header.append("from typing import %s" % ", ".join(sorted(used)))
  for tv in ("_T0", "_T1"):
    if tv in text:
      header.append("%s = TypeVar('%s')" % (tv, tv))
  if "_TB" in text:
    header.append("_TB = TypeVar('_TB', bound=%s)" % bound_cls)
  if "_TC" in text:
    header.append("_TC = TypeVar('_TC', int, str)")
  return "\n".join(header) + "\n\n" + text + "\n"
