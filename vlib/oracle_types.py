"""Membership oracle admits(pytd_type, run-time value) written from PEP 484,
independent of pytype's matcher.  Returns True / False; anything it does not
model admits (and is counted via the `unmodelled` list)."""

from vlib import boot

NUM = {"builtins.float": (int, float), "builtins.complex": (int, float,
                                                             complex),
       "builtins.int": (int,), "builtins.bool": (bool,)}
BUILTIN = {"builtins.str": str, "builtins.bytes": bytes, "builtins.list": list,
           "builtins.dict": dict, "builtins.set": set,
           "builtins.frozenset": frozenset, "builtins.tuple": tuple,
           "builtins.object": object, "builtins.type": type,
           "builtins.range": range, "builtins.bytearray": bytearray}


def same_class(c, pytd_name):
  """Run-time class c is the class the stub calls pytd_name: qualified names
  agree (Outer.Node is not Node); classes local to a function are compared by
  their last component."""
  q = c.__qualname__
  if "<locals>" in q:
    return c.__name__ == pytd_name.split(".")[-1]
  return q == pytd_name or "m." + q == pytd_name


class Oracle:

  def __init__(self):
    boot.ensure()
    from pytype.pytd import pytd
    self.pytd = pytd
    self.unmodelled = []

  def admits(self, t, v):
    pytd = self.pytd
    if isinstance(t, pytd.AnythingType):
      return True
    if isinstance(t, pytd.NothingType):
      return False
    if isinstance(t, pytd.UnionType):
      return any(self.admits(x, v) for x in t.type_list)
    if isinstance(t, pytd.TypeParameter):
      return True
    if isinstance(t, pytd.Annotated):
      return self.admits(t.base_type, v)
    if isinstance(t, pytd.Literal):
      lv = t.value
      if isinstance(lv, pytd.Constant):
        return True
      return type(lv) is type(v) and lv == v or (lv is None and v is None)
    if isinstance(t, (pytd.ClassType, pytd.NamedType)):
      n = t.name
      if n in ("builtins.NoneType", "NoneType"):
        return v is None
      if n in NUM:
        return isinstance(v, NUM[n])
      if n in BUILTIN:
        return isinstance(v, BUILTIN[n])
      if n in ("typing.Callable", "builtins.function", "Callable"):
        return callable(v)
      if n.startswith("builtins.") or n.startswith("typing."):
        self.unmodelled.append(n)
        return True
      return any(same_class(c, n) for c in type(v).__mro__)
    if isinstance(t, pytd.TupleType):
      return (isinstance(v, tuple) and len(v) == len(t.parameters) and
              all(self.admits(p, x) for p, x in zip(t.parameters, v)))
    if isinstance(t, pytd.CallableType):
      return callable(v)
    if isinstance(t, pytd.GenericType):
      b = t.base_type.name
      if b == "builtins.type":
        if not isinstance(v, type):
          return False
        p = t.parameters[0]
        if isinstance(p, (pytd.ClassType, pytd.NamedType)):
          short = p.name.split(".")[-1]
          if p.name in BUILTIN:
            return issubclass(v, BUILTIN[p.name])
          if p.name in NUM:
            return issubclass(v, NUM[p.name][-1]) or issubclass(v, int)
          return any(same_class(c, p.name) for c in v.__mro__)
        return True
      if b in ("builtins.list", "builtins.set", "builtins.frozenset",
               "builtins.tuple"):
        return isinstance(v, BUILTIN[b]) and all(
            self.admits(t.parameters[0], x) for x in v)
      if b == "builtins.dict":
        return isinstance(v, dict) and all(
            self.admits(t.parameters[0], k) and self.admits(t.parameters[1], x)
            for k, x in v.items())
      if b == "typing.Callable":
        return callable(v)
      if b.startswith("builtins.") or b.startswith("typing."):
        self.unmodelled.append(b)
        return True
      return any(same_class(c, b) for c in type(v).__mro__)
    self.unmodelled.append(type(t).__name__)
    return True
