"""Sharded runner, evidence writer and known-findings matcher.

A property module (props/cNN_*.py) exports
  ID, RULE, ASSUMPTIONS (list[str]), optional LEVEL (default "exploration")
  run_shard(ctx)      -- do shard ctx.shard of ctx.nshards of the search
  replay(ctx, obj)    -- re-run one saved case (obj = replay file's "case")
  optional EXHAUSTIVE(tier) -> bool
The search reports through ctx: ctx.case(...), ctx.event(...), and raises or
records violations with a *root-cause signature*.  Signatures listed as
`known` in known_findings.json are counted and skipped so the search goes on.
"""

import collections
import concurrent.futures
import hashlib
import json
import multiprocessing
import os
import sys
import time
import traceback

from vlib import boot

VERIF = boot.VERIF
KNOWN_PATH = os.path.join(VERIF, "known_findings.json")
MAX_SAMPLES = 6


class Violation(Exception):
  """Raised inside a search body for an unlisted violation."""

  def __init__(self, signature, detail, case):
    super().__init__("%s: %s" % (signature, detail))
    self.signature = signature
    self.detail = detail
    self.case = case


def stable_hash(obj):
  return hashlib.sha1(
      json.dumps(obj, sort_keys=True, default=repr).encode()).hexdigest()[:16]


def load_known(prop_id):
  if not os.path.exists(KNOWN_PATH):
    return []
  with open(KNOWN_PATH) as f:
    data = json.load(f)
  return [e for e in data.get("findings", [])
          if e.get("property") == prop_id and e.get("status") == "known"]


class Ctx:
  """Per-shard search context."""

  def __init__(self, prop_id, tier, seed, shard, nshards, known):
    self.prop_id = prop_id
    self.tier = tier
    self.seed = seed
    self.shard = shard
    self.nshards = nshards
    self.known_sigs = {e["signature"] for e in known}
    self.known = known
    self.evaluations = 0
    self.nontrivial = set()
    self.trivial = 0
    self.counters = collections.Counter()
    self.samples = []
    self.violations = []   # dicts: signature, detail, case
    self.known_hits = collections.Counter()
    self.extra = {}
    self._seen_sigs = set()
    self.last_failure = None

  # ---- seeds
  @property
  def hseed(self):
    return int(hashlib.sha1(
        ("%d/%d/%s" % (self.seed, self.shard, self.prop_id)).encode()
    ).hexdigest()[:12], 16)

  def quick(self):
    return self.tier == "quick"

  # ---- bookkeeping
  def case(self, key=None, nontrivial=False, sample=None, classes=()):
    """Count one evaluated case.  key identifies it for distinctness."""
    self.evaluations += 1
    if nontrivial:
      self.nontrivial.add(stable_hash(key) if not isinstance(key, str)
                          or len(key) > 40 else key)
    else:
      self.trivial += 1
    for c in classes:
      self.counters[c] += 1
    if sample is not None and nontrivial and len(self.samples) < MAX_SAMPLES:
      self.samples.append(sample)

  def crumb(self, obj):
    """Leave a breadcrumb (survives a native crash) when VERIF_CRUMBS=1."""
    if os.environ.get("VERIF_CRUMBS") != "1":
      return
    d = os.path.join(VERIF, ".run", self.prop_id)
    os.makedirs(d, exist_ok=True)
    with open(os.path.join(d, "%d.crumb" % self.shard), "w") as f:
      json.dump(obj, f, default=repr)

  def event(self, label, n=1):
    self.counters[label] += n

  def is_known(self, sig):
    return sig in self.known_sigs

  def report(self, signature, detail, case):
    """Record a violation (deduplicated by signature); return True if new."""
    if signature in self.known_sigs:
      self.known_hits[signature] += 1
      return False
    if signature in self._seen_sigs:
      self.counters["violation_repeat:" + signature] += 1
      return False
    self._seen_sigs.add(signature)
    self.violations.append(
        {"signature": signature, "detail": detail, "case": case})
    return True

  def check(self, ok, signature, detail, case):
    """Inside a Hypothesis body: raise for an unlisted, not-yet-seen sig."""
    if ok:
      return
    if signature in self.known_sigs:
      self.known_hits[signature] += 1
      return
    if signature in self._seen_sigs:
      self.counters["violation_repeat:" + signature] += 1
      return
    raise Violation(signature, detail, case)

  def dump(self):
    return {
        "shard": self.shard,
        "evaluations": self.evaluations,
        "nontrivial": sorted(self.nontrivial),
        "trivial": self.trivial,
        "counters": dict(self.counters),
        "samples": self.samples,
        "violations": self.violations,
        "known_hits": dict(self.known_hits),
        "extra": self.extra,
    }


def hyp_run(ctx, strategy, body, max_examples, label="", shrink=None,
            rounds=3):
  """Run `body(x)` for x drawn from `strategy` under Hypothesis.

  body raises Violation for an unlisted violation.  The failure is shrunk,
  recorded under its signature, and the search is restarted (other seed) so
  that further root causes are found, up to `rounds` times.
  """
  import hypothesis
  from hypothesis import HealthCheck, Phase, given, settings
  if shrink is None:
    shrink = os.environ.get("VERIF_NOSHRINK") != "1"
  phases = [Phase.explicit, Phase.generate]
  if shrink:
    phases.append(Phase.shrink)
  remaining = max_examples
  for rnd in range(rounds):
    if remaining <= 0:
      break
    before = ctx.evaluations
    sd = int(hashlib.sha1(("%d/%s/%d" % (ctx.hseed, label, rnd)).encode()
                          ).hexdigest()[:12], 16)
    last = {}

    @hypothesis.seed(sd)
    @settings(max_examples=remaining, database=None, deadline=None,
              derandomize=False, report_multiple_bugs=False, phases=phases,
              suppress_health_check=list(HealthCheck), print_blob=False)
    @given(strategy)
    def test(x):
      try:
        body(x)
      except Violation as v:
        last["v"] = v
        raise

    try:
      test()
      return
    except Violation as v:
      v = last.get("v", v)
      ctx.report(v.signature, v.detail, v.case)
    except hypothesis.errors.Flaky as e:  # pylint: disable=broad-except
      v = last.get("v")
      if v is not None:
        ctx.report(v.signature, "(flaky under shrink) " + v.detail, v.case)
      else:
        raise
    remaining -= max(1, ctx.evaluations - before)


def state_machine_run(ctx, machine_cls, max_examples, step_count, label="",
                      shrink=None, rounds=3):
  """Same as hyp_run for RuleBasedStateMachine classes."""
  import hypothesis
  from hypothesis import HealthCheck, Phase, settings
  from hypothesis.stateful import run_state_machine_as_test
  if shrink is None:
    shrink = os.environ.get("VERIF_NOSHRINK") != "1"
  phases = [Phase.explicit, Phase.generate]
  if shrink:
    phases.append(Phase.shrink)
  for rnd in range(rounds):
    sd = int(hashlib.sha1(("%d/%s/%d" % (ctx.hseed, label, rnd)).encode()
                          ).hexdigest()[:12], 16)
    st = settings(max_examples=max_examples, stateful_step_count=step_count,
                  database=None, deadline=None, derandomize=False,
                  report_multiple_bugs=False, phases=phases,
                  suppress_health_check=list(HealthCheck), print_blob=False)
    machine_cls._last_violation = None  # pylint: disable=protected-access
    try:
      # silence hypothesis' step printing of the falsifying example
      with open(os.devnull, "w") as devnull:
        old = sys.stdout
        sys.stdout = devnull
        try:
          run_state_machine_as_test(hypothesis.seed(sd)(machine_cls),
                                    settings=st)
        finally:
          sys.stdout = old
      return
    except Violation as v:
      v = machine_cls._last_violation or v  # pylint: disable=protected-access
      ctx.report(v.signature, v.detail, v.case)


# --------------------------------------------------------------------------


def _worker(args):
  mod_name, tier, seed, shard, nshards, known = args
  import importlib
  mod = importlib.import_module(mod_name)
  ctx = Ctx(mod.ID, tier, seed, shard, nshards, known)
  try:
    mod.run_shard(ctx)
  except Violation as v:
    ctx.report(v.signature, v.detail, v.case)
  except BaseException:  # pylint: disable=broad-except
    d = ctx.dump()
    d["harness_error"] = traceback.format_exc()
    return d
  return ctx.dump()


def _shard_main(a, out_path):
  r = _worker(a)
  tmp = out_path + ".tmp"
  with open(tmp, "w") as f:
    json.dump(r, f, default=repr)
  os.replace(tmp, out_path)


def _run_shards(prop_id, args):
  """One OS process per shard (a crash of one must not take the others)."""
  mp = multiprocessing.get_context("fork")
  run_dir = os.path.join(VERIF, ".run", prop_id)
  os.makedirs(run_dir, exist_ok=True)
  for f in os.listdir(run_dir):
    if f.endswith(".json") or f.endswith(".crumb"):
      os.unlink(os.path.join(run_dir, f))
  procs = []
  maxp = int(os.environ.get("VERIF_PROCS", os.cpu_count() or 16))
  pending = list(args)
  running = []
  results, died = [], []

  def reap(block):
    for pr, a, out in list(running):
      if block:
        pr.join()
      if pr.is_alive():
        continue
      running.remove((pr, a, out))
      if os.path.exists(out):
        with open(out) as f:
          results.append(json.load(f))
      else:
        crumb = os.path.join(run_dir, "%d.crumb" % a[3])
        died.append("shard %d died (exit code %s)%s" % (
            a[3], pr.exitcode,
            "; last breadcrumb: " + crumb if os.path.exists(crumb) else ""))

  while pending or running:
    while pending and len(running) < maxp:
      a = pending.pop(0)
      out = os.path.join(run_dir, "%d.json" % a[3])
      pr = mp.Process(target=_shard_main, args=(a, out))
      pr.start()
      running.append((pr, a, out))
    time.sleep(0.02)
    reap(False)
  results.sort(key=lambda r: r["shard"])
  return results, died


def _write_replay(prop_id, viol):
  d = os.path.join(VERIF, "replays", prop_id)
  os.makedirs(d, exist_ok=True)
  name = stable_hash([viol["signature"], viol["case"]]) + ".json"
  path = os.path.join(d, name)
  with open(path, "w") as f:
    json.dump({"property": prop_id, "signature": viol["signature"],
               "detail": viol["detail"], "case": viol["case"]}, f, indent=1,
              default=repr)
  return os.path.relpath(path, VERIF)


def main(mod_name, tier, seed, nshards=None, replay_path=None):
  t0 = time.time()
  boot.ensure()
  import importlib
  mod = importlib.import_module(mod_name)
  prop_id = mod.ID
  known = load_known(prop_id)
  level = getattr(mod, "LEVEL", "exploration")

  if replay_path:
    with open(replay_path) as f:
      obj = json.load(f)
    ctx = Ctx(prop_id, tier, seed, 0, 1, [])
    try:
      mod.replay(ctx, obj["case"])
    except Violation as v:
      ctx.report(v.signature, v.detail, v.case)
    if ctx.violations:
      for v in ctx.violations:
        print("replay reproduces: %s: %s" % (v["signature"], v["detail"]))
      print("VIOLATION property=%s replay=%s" % (prop_id, replay_path))
      return 1
    print("replay of %s: property holds" % replay_path)
    return 0

  if nshards is None:
    nshards = getattr(mod, "NSHARDS", 16)
    if callable(nshards):
      nshards = nshards(tier)
  nshards = int(os.environ.get("VERIF_SHARDS", nshards))
  args = [(mod_name, tier, seed, s, nshards, known) for s in range(nshards)]
  results = []
  harness_errors = []
  only = os.environ.get("VERIF_ONLY_SHARD")
  if only is not None:   # debugging aid: one shard, in-process
    import faulthandler
    faulthandler.enable()
    results = [_worker(args[int(only)])]
  elif nshards == 1:
    results = [_worker(args[0])]
  else:
    results, died = _run_shards(prop_id, args)
    harness_errors.extend(died)
  for r in results:
    if r.get("harness_error"):
      harness_errors.append("shard %d:\n%s" % (r["shard"], r["harness_error"]))

  evaluations = sum(r["evaluations"] for r in results)
  nontrivial = set()
  counters = collections.Counter()
  known_hits = collections.Counter()
  samples = []
  violations = {}
  extra = {}
  for r in results:
    nontrivial.update(r["nontrivial"])
    counters.update(r["counters"])
    known_hits.update(r["known_hits"])
    for s in r["samples"]:
      if len(samples) < MAX_SAMPLES:
        samples.append(s)
    for v in r["violations"]:
      violations.setdefault(v["signature"], v)
    for k, v in r["extra"].items():
      if isinstance(v, (int, float)) and not isinstance(v, bool):
        extra[k] = extra.get(k, 0) + v
      elif isinstance(v, bool):
        extra[k] = extra.get(k, True) and v
      else:
        extra.setdefault(k, v)

  # known findings: re-confirm each recorded input and print its line
  known_lines = []
  if hasattr(mod, "confirm_known"):
    for e in known:
      try:
        still = mod.confirm_known(e)
      except BaseException:  # pylint: disable=broad-except
        harness_errors.append("confirm_known(%s):\n%s" %
                              (e["signature"], traceback.format_exc()))
        continue
      e["_still"] = still
  for e in known:
    still = e.get("_still", True)
    line = "KNOWN-FINDING: property=%s %s [signature=%s; hits this run=%d%s]" % (
        prop_id, e["what"], e["signature"], known_hits.get(e["signature"], 0),
        "" if still else "; recorded input no longer fails")
    known_lines.append(line)

  exhaustive = bool(extra.pop("exhaustive", False)) and not harness_errors
  wall = time.time() - t0
  coverage = {
      "evaluations": evaluations,
      "distinct_nontrivial": len(nontrivial),
      "rule": mod.RULE,
      "samples": samples or ["(no non-trivial sample captured)"],
      "exhaustive": exhaustive,
      "classes": dict(sorted(counters.items())),
      "trivial_cases": sum(r["trivial"] for r in results),
      "shards": nshards,
      "known_finding_hits": dict(known_hits),
  }
  coverage.update(extra)
  evidence = {
      "property_id": prop_id,
      "tier": tier,
      "seed": seed,
      "level": level,
      "coverage": coverage,
      "assumptions": list(getattr(mod, "ASSUMPTIONS", [])),
      "wall_s": round(wall, 2),
      "violations": len(violations),
  }
  os.makedirs(os.path.join(VERIF, "evidence"), exist_ok=True)
  ev_path = os.path.join(VERIF, "evidence", prop_id + ".json")
  with open(ev_path, "w") as f:
    json.dump(evidence, f, indent=1, default=repr)
    f.write("\n")

  print("%s tier=%s seed=%d: %d evaluations, %d distinct non-trivial, "
        "%.1fs%s" % (prop_id, tier, seed, evaluations, len(nontrivial), wall,
                     " (exhaustive)" if exhaustive else ""))
  for line in known_lines:
    print(line)
  if harness_errors:
    for h in harness_errors:
      sys.stderr.write("HARNESS-ERROR: " + h + "\n")
  rc = 0
  for sig, v in sorted(violations.items()):
    path = _write_replay(prop_id, v)
    print("violation signature=%s: %s" % (sig, v["detail"]))
    print("VIOLATION property=%s replay=%s" % (prop_id, path))
    rc = 1
  if rc == 0 and harness_errors:
    rc = 2
  return rc
