"""Build + load pytype's typegraph extension from /repo's *current* sources.

Every check calls `boot.ensure()` first.  The six .cc files named in
/repo/setup.py (plus headers) are hashed; if /verif/.build/<hash>/cfg*.so does
not exist it is compiled (parallel g++), then loaded under the module name
`pytype.typegraph.cfg`.  Python sources are imported straight from /repo, so
whatever is in /repo's working tree is what gets tested.
"""

import glob
import hashlib
import importlib.util
import os
import shutil
import subprocess
import sys
import sysconfig

VERIF = os.path.dirname(os.path.dirname(os.path.abspath(__file__)))
REPO = os.environ.get("VERIF_REPO", "/repo")
BUILD_ROOT = os.path.join(VERIF, ".build")
TYPESHED = os.path.join(VERIF, "fixtures", "typeshed_min")
GUARD = "PYTYPE_VERIF"

CC_FILES = ["cfg", "cfg_logging", "pylogging", "reachable", "solver", "typegraph"]


def _tg_dir(repo):
  return os.path.join(repo, "pytype", "typegraph")


def source_hash(repo=None):
  repo = repo or REPO
  h = hashlib.sha256()
  d = _tg_dir(repo)
  names = sorted(
      f for f in os.listdir(d)
      if (f.endswith(".h") or f.endswith(".cc")) and "_test" not in f)
  for n in names:
    h.update(n.encode())
    with open(os.path.join(d, n), "rb") as f:
      h.update(f.read())
  h.update(sys.version.encode())
  return h.hexdigest()[:20]


def build(repo=None, verbose=False):
  """Compile the extension if needed; return the .so path."""
  repo = repo or REPO
  hsh = source_hash(repo)
  out_dir = os.path.join(BUILD_ROOT, hsh)
  so = os.path.join(out_dir, "cfg.cpython-312-x86_64-linux-gnu.so")
  if os.path.exists(so):
    return so
  tmp_dir = out_dir + ".tmp%d" % os.getpid()
  os.makedirs(tmp_dir, exist_ok=True)
  pyinc = sysconfig.get_paths()["include"]
  try:
    import pybind11
    pbinc = pybind11.get_include()
  except Exception:  # pylint: disable=broad-except
    pbinc = pyinc
  procs = []
  for f in CC_FILES:
    cmd = [
        "g++", "-O1", "-std=c++20", "-fPIC", "-fvisibility=hidden", "-w",
        "-I" + pyinc, "-I" + pbinc, "-I" + repo, "-c",
        os.path.join(_tg_dir(repo), f + ".cc"), "-o",
        os.path.join(tmp_dir, f + ".o")
    ]
    procs.append((f, subprocess.Popen(
        cmd, stdout=subprocess.PIPE, stderr=subprocess.STDOUT)))
  for f, p in procs:
    out, _ = p.communicate()
    if p.returncode != 0:
      sys.stderr.write(out.decode(errors="replace"))
      shutil.rmtree(tmp_dir, ignore_errors=True)
      raise SystemExit("HARNESS-ERROR: compiling %s.cc failed" % f)
  tmp_so = os.path.join(tmp_dir, os.path.basename(so))
  r = subprocess.run(
      ["g++", "-shared", "-o", tmp_so] +
      [os.path.join(tmp_dir, f + ".o") for f in CC_FILES],
      stdout=subprocess.PIPE, stderr=subprocess.STDOUT)
  if r.returncode != 0:
    sys.stderr.write(r.stdout.decode(errors="replace"))
    shutil.rmtree(tmp_dir, ignore_errors=True)
    raise SystemExit("HARNESS-ERROR: linking cfg.so failed")
  os.makedirs(out_dir, exist_ok=True)
  os.replace(tmp_so, so)
  shutil.rmtree(tmp_dir, ignore_errors=True)
  _prune_old(hsh)
  if verbose:
    print("built", so)
  return so


def _prune_old(keep):
  """Keep at most 6 cached builds (disk is limited)."""
  try:
    dirs = [d for d in glob.glob(os.path.join(BUILD_ROOT, "*"))
            if os.path.isdir(d) and ".tmp" not in d]
    dirs.sort(key=os.path.getmtime)
    for d in dirs[:-6]:
      if os.path.basename(d) != keep:
        shutil.rmtree(d, ignore_errors=True)
  except OSError:
    pass


_loaded = False


def ensure(repo=None):
  """Make `import pytype...` use /repo with a freshly built cfg extension."""
  global _loaded
  if _loaded:
    return
  repo = repo or REPO
  os.environ.setdefault("TYPESHED_HOME", TYPESHED)
  os.environ[GUARD] = "1"
  so = build(repo)
  if repo not in sys.path:
    sys.path.insert(0, repo)
  import pytype.typegraph  # pylint: disable=g-import-not-at-top
  spec = importlib.util.spec_from_file_location("pytype.typegraph.cfg", so)
  m = importlib.util.module_from_spec(spec)
  spec.loader.exec_module(m)
  sys.modules["pytype.typegraph.cfg"] = m
  pytype.typegraph.cfg = m
  _loaded = True


def cfg():
  ensure()
  return sys.modules["pytype.typegraph.cfg"]


if __name__ == "__main__":
  print(build(verbose=True))
