"""Typegraph specs: building cfg.Programs from plain data, and the reference
model of the solver's declarative semantics (shared by C07 and C08).

spec = {
  "n": number of nodes,
  "edges": [[a, b], ...]             (a -> b)
  "nv": number of variables,
  "bindings": [[var, [[where, [[src, ...], ...]], ...]], ...]
        binding i belongs to variable `var`; one entry per origin; each origin
        has >= 1 source sets over indices of *earlier* bindings
  "conds": {node: binding index}     (optional)
}
"""

import itertools

from vlib import boot


def build(spec, before_late=None):
  """before_late(p, nodes, vars, binds), if given, is called after the base
  graph is complete and before the `late` origins are added."""
  cfg = boot.cfg()
  p = cfg.Program()
  nodes = [p.NewCFGNode("n%d" % i) for i in range(spec["n"])]
  for a, b in spec["edges"]:
    nodes[a].ConnectTo(nodes[b])
  vars_ = [p.NewVariable() for _ in range(spec["nv"])]
  binds = []
  for bi, (v, origins) in enumerate(spec["bindings"]):
    b = None
    data = "d%d" % bi
    for where, ssets in origins:
      for ss in ssets:
        if b is None:
          b = vars_[v].AddBinding(data, [binds[i] for i in ss], nodes[where])
        else:
          b.AddOrigin(nodes[where], [binds[i] for i in ss])
    binds.append(b)
  if before_late is not None and spec.get("late"):
    before_late(p, nodes, vars_, binds)
  for b, where, ss in spec.get("late") or []:
    if spec.get("late_api") == "AddBinding":
      # storing the same data again: Variable.AddBinding finds the binding
      got = vars_[spec["bindings"][b][0]].AddBinding(
          binds[b].data, [binds[i] for i in ss], nodes[where])
      assert got.id == binds[b].id
    else:
      binds[b].AddOrigin(nodes[where], [binds[i] for i in ss])
  for n, c in (spec.get("conds") or {}).items():
    nodes[int(n)].condition = binds[c]
  return p, nodes, vars_, binds


def sources_acyclic_with(spec, b, ss):
  """Would adding source set `ss` to binding b keep the source graph acyclic?"""
  direct = {i: set() for i in range(len(spec["bindings"]))}
  for i, (_, origins) in enumerate(spec["bindings"]):
    for _, ssets in origins:
      for s in ssets:
        direct[i].update(s)
  for lb, _, lss in spec.get("late") or []:
    direct[lb].update(lss)
  seen = set()
  todo = list(ss)
  while todo:
    x = todo.pop()
    if x == b:
      return False
    if x in seen:
      continue
    seen.add(x)
    todo.extend(direct[x])
  return True


class Reference:
  """Naive backward path enumeration; exact on acyclic graphs w/o conditions.

  explain(pos, goals): at `pos`, repeatedly replace every goal that has an
  origin at `pos` by one of that origin's source sets (all choices tried; a
  goal already handled at this node is not revisited); reject the choice if
  two removed goals bind the same variable; succeed if nothing remains; fail
  if `pos` itself binds the variable of a remaining goal; otherwise step to
  each predecessor of `pos` and recurse.  Results of the pure recursion are
  memoised (it terminates because the graph is acyclic).
  """

  def __init__(self, spec, strict_conds=False):
    n = spec["n"]
    self.preds = {i: [] for i in range(n)}
    for a, b in spec["edges"]:
      if a != b and a not in self.preds[b]:
        self.preds[b].append(a)
    B = spec["bindings"]
    self.origin_at = [{w: [list(x) for x in ss] for (w, ss) in origins}
                      for (_, origins) in B]   # copies: never mutate the spec
    self.var_of = [v for (v, _) in B]
    self.var_nodes = {}
    for v, origins in B:
      for w, _ in origins:
        self.var_nodes.setdefault(v, set()).add(w)
    for b, w, ss in spec.get("late") or []:
      lst = self.origin_at[b].setdefault(w, [])
      if list(ss) not in [list(x) for x in lst]:
        lst.append(list(ss))
      self.var_nodes.setdefault(self.var_of[b], set()).add(w)
    self.conds = {int(k): v for k, v in (spec.get("conds") or {}).items()}
    self.strict = strict_conds
    self._memo_explain = {}
    self._memo_walk = {}

  def _expand(self, pos, goals):
    results = []
    origin_at = self.origin_at

    def rec(pending, seen, removed, remaining):
      if not pending:
        results.append((frozenset(removed), frozenset(remaining)))
        return
      g = min(pending)
      pending = pending - {g}
      if g in seen:
        rec(pending, seen, removed, remaining)
        return
      seen = seen | {g}
      if pos not in origin_at[g]:
        rec(pending, seen, removed, remaining | {g})
        return
      for ss in origin_at[g][pos]:
        rec(pending | set(ss), seen, removed | {g}, remaining)

    init_remove = frozenset(g for g in goals if pos in origin_at[g])
    rec(init_remove, frozenset(), frozenset(), frozenset(goals - init_remove))
    return results

  def explain(self, pos, goals):
    goals = frozenset(goals)
    key = (pos, goals)
    if key in self._memo_explain:
      return self._memo_explain[key]
    r = self._explain(pos, set(goals))
    self._memo_explain[key] = r
    return r

  def _explain(self, pos, goals):
    if self.strict and pos in self.conds:
      goals.add(self.conds[pos])
    for removed, remaining in self._expand(pos, frozenset(goals)):
      vs = [self.var_of[g] for g in removed]
      if len(vs) != len(set(vs)):
        continue
      if not remaining:
        return True
      blocked = set()
      for g in remaining:
        blocked |= self.var_nodes.get(self.var_of[g], set())
      if pos in blocked:
        continue
      blocked = frozenset(blocked)
      for q in self.preds[pos]:
        if self._walk(q, remaining, blocked):
          return True
    return False

  def _walk(self, pos, goals, blocked):
    key = (pos, goals, blocked)
    if key in self._memo_walk:
      return self._memo_walk[key]
    r = self._walk1(pos, goals, blocked)
    self._memo_walk[key] = r
    return r

  def _walk1(self, pos, goals, blocked):
    if pos in blocked:
      if any(pos in self.origin_at[g] for g in goals):
        return self.explain(pos, goals)
      return False
    if self.strict and pos in self.conds:
      return self.explain(pos, goals)
    for q in self.preds[pos]:
      if self._walk(q, goals, blocked):
        return True
    return False

  def backward_reachable(self, pos):
    seen = {pos}
    todo = [pos]
    while todo:
      x = todo.pop()
      for y in self.preds[x]:
        if y not in seen:
          seen.add(y)
          todo.append(y)
    return seen


def is_acyclic(spec):
  n = spec["n"]
  succ = {i: set() for i in range(n)}
  for a, b in spec["edges"]:
    if a != b:
      succ[a].add(b)
  state = {}

  def dfs(u):
    state[u] = 1
    for v in succ[u]:
      if state.get(v) == 1:
        return False
      if v not in state and not dfs(v):
        return False
    state[u] = 2
    return True

  return all(dfs(u) for u in range(n) if u not in state)


def subsets_upto(items, k):
  for r in range(1, k + 1):
    yield from itertools.combinations(items, r)
