"""Worker for C04: analyses a list of programs under one configuration and
prints their outputs as JSON.  Run as a separate process so that
PYTHONHASHSEED and the in-process history are controlled by the parent."""
import hashlib
import io
import json
import os
import sys

sys.path.insert(0, os.path.dirname(os.path.dirname(os.path.abspath(__file__))))
sys.setrecursionlimit(10000)


def main():
  job = json.load(sys.stdin)
  from vlib import boot
  boot.ensure()
  import logging
  logging.disable(logging.CRITICAL)
  import warnings
  warnings.simplefilter("ignore")
  from pytype import config, io as pio, load_pytd
  from pytype.imports import pickle_utils
  from pytype.pytd import serialize_ast
  mode = job["mode"]
  progs = job["programs"]          # list of [id, src]
  order = job.get("order") or list(range(len(progs)))
  noise = job.get("noise") or []   # unrelated sources analysed in between
  out = {}
  # the wall clock is one of the things the output must not depend on: each
  # configuration runs with its own frozen clock value
  import tempfile
  import time
  clock = float(job.get("clock", 1.7e9))
  time.time = lambda: clock
  scratch = tempfile.mkdtemp(prefix="c04w", dir=job["scratch"])
  bundle_done = False
  shared_loader = None
  if mode == "loader":
    shared_loader = load_pytd.create_loader(
        config.Options.create("m.py", python_version=(3, 12)))
  for k, idx in enumerate(order):
    pid, src = progs[idx]
    if mode == "perm" and noise:
      try:
        pio.generate_pyi(noise[k % len(noise)],
                         config.Options.create("noise.py",
                                               python_version=(3, 12)))
      except Exception:  # pylint: disable=broad-except
        pass
    opts = config.Options.create("m.py", python_version=(3, 12),
                                 module_name="m")
    try:
      ret, pyi = pio.generate_pyi(src, opts, shared_loader)
    except Exception as e:  # pylint: disable=broad-except
      out[pid] = {"crash": type(e).__name__}
      continue
    f = io.StringIO()
    ret.context.errorlog.print_to_file(f)
    errors_text = f.getvalue()
    listed = [(e._filename, e._line, e.as_string(color=False))  # pylint: disable=protected-access
              for e in ret.context.errorlog.unique_sorted_errors()]
    try:
      ast = serialize_ast.PrepareForExport("m", ret.ast, ret.context.loader)
      blob = pickle_utils.Serialize(ast)
      pick = hashlib.sha256(blob).hexdigest()
    except Exception as e:  # pylint: disable=broad-except
      pick = "serialize-raised:" + type(e).__name__
    # the compressed forms (what --pickle-output / save_to_pickle write)
    gz = bundle = None
    try:
      path = os.path.join(scratch, "m.pickled")
      pickle_utils.SerializeAndSave(ast, path, compress=True, src_path="m.py")
      with open(path, "rb") as fh:
        gz = hashlib.sha256(fh.read()).hexdigest()
      if not bundle_done and mode != "loader":
        bundle_done = True
        path = os.path.join(scratch, "bundle.pickled")
        ret.context.loader.save_to_pickle(path)
        with open(path, "rb") as fh:
          bundle = hashlib.sha256(fh.read()).hexdigest()
    except Exception as e:  # pylint: disable=broad-except
      gz = gz or ("save-raised:" + type(e).__name__)
    out[pid] = {"pyi": pyi, "errors": errors_text, "pickle": pick,
                "listed": listed, "gz": gz, "bundle": bundle}
  import shutil
  shutil.rmtree(scratch, ignore_errors=True)
  sys.stdout.write("RESULT " + json.dumps(out))


if __name__ == "__main__":
  main()
