"""Token-level source mutation (for C15/C16): delete / duplicate / swap a
token, change an operator or keyword, indent / dedent a line.  All choices are
drawn from Hypothesis."""

import io
import tokenize

from hypothesis import strategies as st

OPS = ["+", "-", "*", "/", "//", "%", "==", "!=", "<", ">", "and", "or",
       "not", "in", "is", "=", ":", ",", "(", ")", "[", "]", ".", "if",
       "else", "for", "return", "yield", "await", "async", "lambda", "*",
       "**", ":=", "@", "break", "continue", "pass", "None", "except",
       "finally", "with", "as", "class", "def", "global", "del", "raise"]


def tokens_of(src):
  try:
    return list(tokenize.generate_tokens(io.StringIO(src).readline))
  except (tokenize.TokenError, IndentationError, SyntaxError):
    return None


def untok(toks):
  # keep exact spacing by rebuilding from positions where possible
  try:
    return tokenize.untokenize([(t.type, t.string) for t in toks])
  except Exception:  # pylint: disable=broad-except
    return " ".join(t.string for t in toks)


@st.composite
def mutation_plan(draw, max_ops=3):
  n = draw(st.integers(1, max_ops))
  ops = []
  for _ in range(n):
    kind = draw(st.sampled_from(["del", "dup", "swap", "op", "indent",
                                 "dedent", "delline", "dupline", "insert"]))
    ops.append((kind, draw(st.integers(0, 10**6)), draw(st.integers(0, 10**6))))
  return ops


def apply_plan(src, plan):
  for kind, a, b in plan:
    if kind in ("indent", "dedent", "delline", "dupline"):
      lines = src.split("\n")
      if not lines:
        continue
      i = a % len(lines)
      if kind == "indent":
        lines[i] = "  " + lines[i]
      elif kind == "dedent":
        lines[i] = lines[i][2:] if lines[i].startswith("  ") else lines[i]
      elif kind == "delline":
        del lines[i]
      else:
        lines.insert(i, lines[i])
      src = "\n".join(lines)
      continue
    toks = tokens_of(src)
    if not toks:
      # not tokenizable any more: fall back to character-level edits
      if src:
        i = a % len(src)
        src = src[:i] + src[i + 1:]
      continue
    real = [i for i, t in enumerate(toks)
            if t.type not in (tokenize.ENDMARKER, tokenize.NEWLINE,
                              tokenize.NL, tokenize.INDENT, tokenize.DEDENT)]
    if not real:
      continue
    i = real[a % len(real)]
    lst = [(t.type, t.string) for t in toks]
    if kind == "del":
      del lst[i]
    elif kind == "dup":
      lst.insert(i, lst[i])
    elif kind == "swap":
      j = real[b % len(real)]
      lst[i], lst[j] = lst[j], lst[i]
    elif kind == "op":
      lst[i] = (tokenize.OP, OPS[b % len(OPS)])
    elif kind == "insert":
      lst.insert(i, (tokenize.OP, OPS[b % len(OPS)]))
    try:
      src = tokenize.untokenize(lst)
    except Exception:  # pylint: disable=broad-except
      src = " ".join(s for _, s in lst)
  return src
