"""Hypothesis strategy producing Python programs (source text) for the
program-level checks.

program(cfg) -> dict(src=..., stmts=[source of each top-level statement],
                     features=set of feature tags, classes=[...], funcs=[...])

The generator is type-directed: every name carries the *kind* it was built
with, so that operations are mostly valid and programs mostly run.  Programs
import nothing (except `typing` when annotations are requested).
"""

from hypothesis import strategies as st

SCALAR_KINDS = ["int", "float", "bool", "str", "bytes", "none"]


class Cfg:
  """Feature switches."""

  def __init__(self, n_stmts=(5, 14), loops=False, generators=False,
               async_=False, with_=False, finally_=False, match=False,
               decorators=False, star=False, global_=False, walrus=False,
               errors=0, annotations=0.0, classes=True, functions=True,
               try_=True, comprehensions=True, lambdas=True, nested=False):
    self.n_stmts = n_stmts
    self.loops = loops
    self.generators = generators
    self.async_ = async_
    self.with_ = with_
    self.finally_ = finally_
    self.match = match
    self.decorators = decorators
    self.star = star
    self.global_ = global_
    self.walrus = walrus
    self.errors = errors
    self.annotations = annotations
    self.classes = classes
    self.functions = functions
    self.try_ = try_
    self.comprehensions = comprehensions
    self.lambdas = lambdas
    self.nested = nested

  @classmethod
  def everything(cls, **kw):
    d = dict(loops=True, generators=True, async_=True, with_=True,
             finally_=True, match=True, decorators=True, star=True,
             global_=True, walrus=True, nested=True)
    d.update(kw)
    return cls(**d)


def kind_str(k):
  if isinstance(k, tuple):
    return "%s[%s]" % (k[0], ",".join(kind_str(x) for x in k[1:]))
  return k


def hashable(k):
  return k in ("int", "float", "bool", "str", "bytes", "none") or (
      isinstance(k, tuple) and k[0] == "tuple" and all(hashable(x)
                                                       for x in k[1:]))


def ann_of(k):
  """A typing annotation text for kind k (None if not expressible)."""
  return _ann_of(k)


def _ann_of(k):
  m = {"int": "int", "float": "float", "bool": "bool", "str": "str",
       "bytes": "bytes", "none": "None"}
  if k in m:
    return m[k]
  if isinstance(k, tuple):
    if k[0] == "list":
      a = _ann_of(k[1])
      return a and "list[%s]" % a
    if k[0] == "set":
      a = ann_of(k[1])
      return a and "set[%s]" % a
    if k[0] == "dict":
      a, b = ann_of(k[1]), ann_of(k[2])
      return a and b and "dict[%s, %s]" % (a, b)
    if k[0] == "tuple":
      xs = [ann_of(x) for x in k[1:]]
      return all(xs) and "tuple[%s]" % ", ".join(xs)
    if k[0] == "inst":
      return k[1]
    if k[0] == "union":
      xs = [ann_of(x) for x in k[1:]]
      return all(xs) and "Union[%s]" % ", ".join(xs)
  return None


DUNDERS = {
    "__class_getitem__": ["def __class_getitem__(cls, item):", "  return cls"],
    "__init_subclass__": ["def __init_subclass__(cls, **kw):",
                          "  super().__init_subclass__()"],
    "__new__": ["def __new__(cls, *a, **k):", "  return super().__new__(cls)"],
    "__call__": ["def __call__(self, q=0):", "  return q"],
    "__getitem__": ["def __getitem__(self, i):", "  return i"],
    "__len__": ["def __len__(self):", "  return 0"],
    "__eq__": ["def __eq__(self, o):", "  return self is o"],
    "__iter__": ["def __iter__(self):", "  return iter([1])"],
    "__enter__": ["def __enter__(self):", "  return self",
                  "def __exit__(self, *a):", "  return None"],
    "__getattr__": ["def __getattr__(self, n):", "  return 0"],
    "__repr__": ["def __repr__(self):", "  return 'r'"],
    "__add__": ["def __add__(self, o):", "  return self",
                "def __radd__(self, o):", "  return 1"],
    "__bool__": ["def __bool__(self):", "  return True"],
}


class G:
  """One generation run (wraps `draw`)."""

  def __init__(self, draw, cfg):
    self.draw = draw
    self.cfg = cfg
    self.features = set()
    self.classes = []     # dicts: name, bases, attrs{name: kind}, init_params, methods{name:(params, ret)}
    self.funcs = []       # dicts: name, params[(name, kind, default?)], ret kind
    self.counter = 0
    self.needs_typing = set()
    self.annotated = set()
    self.uses_T = False
    self.imports = set()
    self.tail = []      # statements that must stay at the very end

  # ---- small helpers
  def i(self, lo, hi):
    return self.draw(st.integers(lo, hi))

  def pick(self, xs):
    return self.draw(st.sampled_from(list(xs)))

  def chance(self, pct):
    return self.i(0, 99) < pct

  def ann(self, kind):
    """Annotation text for a kind; now and then a bare `Any`."""
    if self.cfg.annotations and self.chance(10):
      self.needs_typing.add("Any")
      return "Any"
    return ann_of(kind)

  def fresh(self, prefix="v"):
    self.counter += 1
    return "%s%d" % (prefix, self.counter)

  # ---- kinds
  def some_kind(self, depth=1, allow_inst=True):
    opts = list(SCALAR_KINDS[:5]) * 2 + ["none"]
    if depth > 0:
      opts += ["list", "tuple", "dict", "set"]
    if allow_inst and self.classes:
      opts += ["inst", "inst"]
    c = self.pick(opts)
    if c == "list":
      return ("list", self.some_kind(depth - 1, allow_inst))
    if c == "set":
      k = self.some_kind(0, False)
      return ("set", k)
    if c == "dict":
      return ("dict", self.pick(["int", "str"]), self.some_kind(depth - 1,
                                                                 allow_inst))
    if c == "tuple":
      n = self.i(1, 3)
      return ("tuple",) + tuple(self.some_kind(depth - 1, allow_inst)
                                for _ in range(n))
    if c == "inst":
      return ("inst", self.pick(self.classes)["name"])
    return c

  # ---- expressions
  def vars_of(self, env, kind):
    return [n for n, k in env.items() if k == kind]

  def literal(self, kind):
    if kind == "int":
      return str(self.pick([0, 1, 2, 3, 7, 10, -1, 42]))
    if kind == "float":
      return self.pick(["0.5", "1.0", "2.5", "-3.25"])
    if kind == "bool":
      return self.pick(["True", "False"])
    if kind == "str":
      return self.pick(["'a'", "'bc'", "''", "'xyz'", "'1'"])
    if kind == "bytes":
      return self.pick(["b'x'", "b''", "b'ab'"])
    if kind == "none":
      return "None"
    raise AssertionError(kind)

  def expr(self, env, kind, depth=2):
    """Source text of an expression of the given kind."""
    vs = self.vars_of(env, kind)
    if vs and self.chance(40):
      return self.pick(vs)
    if isinstance(kind, tuple):
      return self.compound(env, kind, depth)
    if depth <= 0:
      return self.literal(kind)
    e = lambda k=kind, d=depth - 1: self.expr(env, k, d)
    if kind == "int":
      c = self.i(0, 11)
      if c <= 2:
        return self.literal("int")
      if c == 3:
        return "(%s + %s)" % (e(), e())
      if c == 4:
        return "(%s * %s)" % (e(), self.literal("int"))
      if c == 5:
        return "len(%s)" % self.expr(env, self.pick([("list", "int"), "str",
                                                    ("tuple", "int", "str")]),
                                     depth - 1)
      if c == 6:
        return "abs(%s)" % e()
      if c == 7:
        return "(%s if %s else %s)" % (e(), self.cond(env, depth - 1), e())
      if c == 8:
        return "max(%s, %s)" % (e(), e())
      if c == 9:
        return "int(%s)" % self.expr(env, "float", depth - 1)
      if c == 10:
        f = self.call_returning(env, "int", depth - 1)
        if f:
          return f
        return "(%s - %s)" % (e(), e())
      self.features.add("subscript")
      return "[%s, %s][%d]" % (e(), e(), self.i(0, 1))
    if kind == "float":
      c = self.i(0, 5)
      if c <= 1:
        return self.literal("float")
      if c == 2:
        return "(%s + %s)" % (e(), self.expr(env, "int", depth - 1))
      if c == 3:
        return "float(%s)" % self.expr(env, "int", depth - 1)
      if c == 4:
        return "(%s / %s)" % (self.expr(env, "int", depth - 1),
                              self.pick(["2", "4", "0.5"]))
      return "(%s * %s)" % (e(), e())
    if kind == "bool":
      c = self.i(0, 6)
      if c == 0:
        return self.literal("bool")
      if c == 1:
        return "(%s < %s)" % (self.expr(env, "int", depth - 1),
                              self.expr(env, "int", depth - 1))
      if c == 2:
        return "(%s == %s)" % (self.expr(env, "str", depth - 1),
                               self.expr(env, "str", depth - 1))
      if c == 3:
        return "(not %s)" % e()
      if c == 4:
        self.features.add("isinstance")
        any_var = list(env) or None
        if any_var:
          return "isinstance(%s, %s)" % (self.pick(any_var),
                                         self.pick(["int", "str", "float",
                                                    "list", "tuple"]))
        return self.literal("bool")
      if c == 5:
        return "bool(%s)" % self.expr(env, self.pick(["int", "str"]),
                                      depth - 1)
      return "(%s in %s)" % (self.expr(env, "int", depth - 1),
                             self.expr(env, ("list", "int"), depth - 1))
    if kind == "str":
      c = self.i(0, 7)
      if c <= 1:
        return self.literal("str")
      if c == 2:
        return "(%s + %s)" % (e(), e())
      if c == 3:
        return "str(%s)" % self.expr(env, self.pick(["int", "float", "bool"]),
                                     depth - 1)
      if c == 4:
        return "%s.upper()" % self.atom(env, "str")
      if c == 5:
        return "repr(%s)" % self.expr(env, "int", depth - 1)
      if c == 6:
        return "(%s * 2)" % e()
      f = self.call_returning(env, "str", depth - 1)
      return f or "('%%d' %% %s)" % self.expr(env, "int", depth - 1)
    if kind == "bytes":
      return self.literal("bytes")
    if kind == "none":
      return "None"
    raise AssertionError(kind)

  def atom(self, env, kind):
    vs = self.vars_of(env, kind)
    return self.pick(vs) if vs else self.literal(kind)

  def compound(self, env, kind, depth):
    d = max(depth - 1, 0)
    if kind[0] == "list":
      c = self.i(0, 5)
      if c <= 2 or depth <= 0:
        n = self.i(0, 3)
        return "[%s]" % ", ".join(self.expr(env, kind[1], d) for _ in range(n))
      if c == 3 and self.cfg.comprehensions and kind[1] in ("int", "str"):
        self.features.add("comprehension")
        x = self.fresh("c")
        src = self.expr(env, ("list", "int"), 0)
        body = {"int": "%s + 1" % x, "str": "str(%s)" % x}[kind[1]]
        return "[%s for %s in %s]" % (body, x, src)
      if c == 4:
        return "(%s + %s)" % (self.expr(env, kind, d), self.expr(env, kind, d))
      if kind[1] == "int":
        return "sorted(%s)" % self.expr(env, kind, d)
      return "list(%s)" % self.expr(env, kind, d)
    if kind[0] == "set":
      n = self.i(1, 3)
      return "{%s}" % ", ".join(self.expr(env, kind[1], 0) for _ in range(n))
    if kind[0] == "dict":
      n = self.i(0, 2)
      if n == 0:
        return "{}"
      return "{%s}" % ", ".join("%s: %s" % (self.literal(kind[1]),
                                            self.expr(env, kind[2], d))
                                for _ in range(n))
    if kind[0] == "tuple":
      xs = [self.expr(env, k, d) for k in kind[1:]]
      return "(%s,)" % xs[0] if len(xs) == 1 else "(%s)" % ", ".join(xs)
    if kind[0] == "inst":
      cls = [c for c in self.classes if c["name"] == kind[1]][0]
      args = [self.expr(env, k, d) for _, k in cls["init_params"]]
      return "%s(%s)" % (cls["name"], ", ".join(args))
    if kind[0] == "union":
      a, b = kind[1], kind[2]
      if self.chance(30):
        self.features.add("bool-op-value")
        return "(%s %s %s)" % (self.expr(env, a, d), self.pick(["or", "and"]),
                               self.expr(env, b, d))
      return "(%s if %s else %s)" % (self.expr(env, a, d), self.cond(env, d),
                                     self.expr(env, b, d))
    raise AssertionError(kind)

  def call_returning(self, env, kind, depth):
    fs = [f for f in self.funcs if f["ret"] == kind and not f.get("gen")]
    if not fs:
      return None
    f = self.pick(fs)
    self.features.add("call")
    return "%s(%s)" % (f["name"], self.call_args(env, f, depth))

  def call_args(self, env, f, depth):
    args = []
    for (n, k, has_default, pkind) in f["params"]:
      if has_default and self.chance(50):
        continue
      v = self.expr(env, k, depth)
      if pkind == "kwonly" or (pkind == "pos" and self.chance(20) and
                               not any(a.startswith("*") for a in args)):
        args.append("%s=%s" % (n, v))
      else:
        if any("=" in a for a in args):
          args.append("%s=%s" % (n, v))
        else:
          args.append(v)
    return ", ".join(args)

  def cond(self, env, depth):
    c = self.i(0, 7)
    if c == 0:
      self.features.add("const-cond")
      return self.pick(["True", "False", "1", "0", "''", "None"])
    if c == 1:
      vs = [n for n, k in env.items() if k in ("str", "int") or
            (isinstance(k, tuple) and k[0] in ("list", "dict", "inst"))]
      if vs:
        self.features.add("truthiness")
        return self.pick(vs)
    if c == 2:
      vs = [n for n, k in env.items() if isinstance(k, tuple) and
            k[0] == "union" and "none" in k[1:]]
      if vs:
        self.features.add("none-test")
        return "%s is %sNone" % (self.pick(vs), self.pick(["", "not "]))
    if c == 3:
      vs = [n for n, k in env.items() if isinstance(k, tuple) and
            k[0] == "union"]
      if vs:
        self.features.add("isinstance")
        v = self.pick(vs)
        k = env[v][1]
        t = {"int": "int", "str": "str", "float": "float", "bool": "bool",
             "none": "type(None)", "bytes": "bytes"}.get(k) or (
                 k[0] if isinstance(k, tuple) and k[0] in ("list", "tuple",
                                                           "dict", "set")
                 else "object")
        return "isinstance(%s, %s)" % (v, t)
    return self.expr(env, "bool", depth)

  # ---- statements (each returns list of lines; mutates env)
  def assign(self, env, indent=""):
    kind = self.some_kind(1)
    if self.chance(15):
      kind = ("union", kind, self.some_kind(0))
    free = [n for n in env if n not in self.annotated]
    if self.chance(25) and free:
      # (annotated names are never rebound: the program would contradict its
      #  own annotation)
      name = self.pick(free)
    else:
      name = self.fresh("v")
    src = self.expr(env, kind, 2)
    line = "%s = %s" % (name, src)
    a = self.ann(kind)
    if self.cfg.annotations and a and self.chance(
        int(self.cfg.annotations * 100)) and name not in env:
      if "Union[" in a:
        self.needs_typing.add("Union")
      line = "%s: %s = %s" % (name, a, src)
      self.features.add("annotated-var")
      self.annotated.add(name)
    env[name] = kind
    return [indent + line]

  def if_stmt(self, env, indent="", depth=1):
    self.features.add("if")
    cond = self.cond(env, 1)
    name = self.fresh("v")
    k1 = self.some_kind(1)
    k2 = self.some_kind(1) if self.chance(60) else k1
    e1 = self.expr(env, k1, 1)
    e2 = self.expr(env, k2, 1)
    lines = [indent + "if %s:" % cond, indent + "  %s = %s" % (name, e1)]
    inner = dict(env)
    if depth > 0 and self.chance(30):
      lines += self.simple_stmt(inner, indent + "  ", depth - 1)
    form = self.i(0, 3)
    if form == 0:
      # no else: bind before
      lines = [indent + "%s = %s" % (name, e2)] + lines
    elif form == 1:
      k3 = self.some_kind(0)
      lines += [indent + "elif %s:" % self.cond(env, 1),
                indent + "  %s = %s" % (name, self.expr(env, k3, 1)),
                indent + "else:", indent + "  %s = %s" % (name, e2)]
      if k3 != k1 and k3 != k2:
        k2 = ("union", k2, k3) if k2 != k1 else k3
    else:
      lines += [indent + "else:", indent + "  %s = %s" % (name, e2)]
    if k1 != k2:
      self.features.add("branch-different-kinds")
      env[name] = ("union", k1, k2) if not (isinstance(k2, tuple) and
                                            k2[0] == "union") else (
                                                "union", k1) + k2[1:]
    else:
      env[name] = k1
    return lines

  def simple_stmt(self, env, indent, depth=0):
    c = self.i(0, 9)
    if c <= 5:
      return self.assign(env, indent)
    if c <= 7:
      return self.if_stmt(env, indent, depth)
    if c == 8 and self.cfg.try_:
      return self.try_stmt(env, indent)
    return self.mutate_stmt(env, indent)

  def mutate_stmt(self, env, indent):
    lists = [n for n, k in env.items() if isinstance(k, tuple) and
             k[0] == "list"]
    dicts = [n for n, k in env.items() if isinstance(k, tuple) and
             k[0] == "dict"]
    if lists and self.chance(50):
      n = self.pick(lists)
      self.features.add("list-mutation")
      return [indent + "%s.append(%s)" % (n, self.expr(env, env[n][1], 1))]
    if dicts:
      n = self.pick(dicts)
      self.features.add("dict-mutation")
      return [indent + "%s[%s] = %s" % (n, self.literal(env[n][1]),
                                        self.expr(env, env[n][2], 1))]
    return self.assign(env, indent)

  def try_stmt(self, env, indent):
    self.features.add("try")
    name = self.fresh("v")
    k = self.some_kind(0)
    raiser = self.pick(["int('x')", "[1][2]", "{}['k']", "1 // 0",
                        "int('7')", "[1][0]"])
    exc = {"int('x')": "ValueError", "[1][2]": "IndexError",
           "{}['k']": "KeyError", "1 // 0": "ZeroDivisionError",
           "int('7')": "ValueError", "[1][0]": "IndexError"}[raiser]
    t = self.fresh("t")
    lines = [indent + "try:",
             indent + "  %s = %s" % (t, raiser),
             indent + "  %s = %s" % (name, self.expr(env, "int", 1)),
             indent + "except %s:" % exc,
             indent + "  %s = %s" % (name, self.expr(env, k, 1))]
    if self.cfg.finally_ and self.chance(40):
      self.features.add("finally")
      lines += [indent + "finally:", indent + "  %s = 0" % self.fresh("f")]
    env[name] = "int" if k == "int" else ("union", "int", k)
    return lines

  def func_def(self, env, indent="", method_of=None, name=None):
    self.features.add("function")
    name = name or self.fresh("f")
    params = []
    nparams = self.i(0, 3)
    lines_params = []
    local = {}
    first = []
    if method_of:
      first = ["self"]
    default_seen = False
    for _ in range(nparams):
      pn = self.fresh("p")
      pk = self.some_kind(1)
      has_default = default_seen or self.chance(25)
      default_seen = default_seen or has_default
      params.append((pn, pk, has_default, "pos"))
      local[pn] = pk
    for (pn, pk, has_default, _) in params:
      s = pn
      a = self.ann(pk)
      if self.cfg.annotations and a and self.chance(
          int(self.cfg.annotations * 100)):
        if "Union[" in a:
          self.needs_typing.add("Union")
        s += ": " + a
        self.features.add("annotated-param")
        self.annotated.add(pn)
      if has_default:
        s += ("=" if ":" not in s else " = ") + self.expr({}, pk, 0)
      lines_params.append(s)
    star = ""
    if self.chance(15):
      self.features.add("star-args")
      lines_params.append("*args")
      if self.chance(50):
        kn = self.fresh("k")
        kk = self.pick(["int", "str"])
        lines_params.append("%s=%s" % (kn, self.literal(kk)))
        params.append((kn, kk, True, "kwonly"))
        local[kn] = kk
      if self.chance(50):
        lines_params.append("**kw")
    ret = self.some_kind(1)
    body_env = dict(local)
    if method_of:
      body_env.update({"self." + a: k for a, k in
                       method_of["attrs"].items()})
    body = []
    for _ in range(self.i(0, 2)):
      body += self.simple_stmt(body_env, indent + "  ", 0)
    # only names are allowed as assignment targets: drop "self.x" pseudo vars
    if self.chance(30) and ret != "none":
      # conditional return: union return type
      self.features.add("conditional-return")
      ret2 = self.some_kind(0)
      body += [indent + "  if %s:" % self.cond(body_env, 1),
               indent + "    return %s" % self.expr(body_env, ret2, 1)]
      body.append(indent + "  return %s" % self.expr(body_env, ret, 1))
      if ret2 != ret:
        ret = ("union", ret2, ret)
    else:
      body.append(indent + "  return %s" % self.expr(body_env, ret, 1))
    sig = ", ".join(first + lines_params)
    rann = ""
    a = self.ann(ret)
    if self.cfg.annotations and a and self.chance(
        int(self.cfg.annotations * 100)):
      if "Union[" in a:
        self.needs_typing.add("Union")
      rann = " -> " + a
      self.features.add("annotated-return")
    lines = [indent + "def %s(%s)%s:" % (name, sig, rann)] + body
    info = {"name": name, "params": params, "ret": ret}
    return lines, info

  def class_def(self, env):
    self.features.add("class")
    name = self.fresh("C")
    bases = []
    if self.classes and self.chance(50):
      nb = 2 if len(self.classes) >= 2 and self.chance(30) else 1
      cand = [c["name"] for c in self.classes]
      picked = self.draw(st.lists(st.sampled_from(cand), min_size=nb,
                                  max_size=nb, unique=True))
      # C3-consistent: later-defined classes first, and never a class together
      # with one of its own ancestors before it
      picked = sorted(picked, key=cand.index, reverse=True)
      bases = picked
      self.features.add("inheritance")
      if nb == 2:
        self.features.add("multiple-inheritance")
    info = {"name": name, "bases": bases, "attrs": {}, "init_params": [],
            "methods": {}}
    base_infos = [c for c in self.classes if c["name"] in bases]
    for b in base_infos:
      for a, k in b["attrs"].items():
        info["attrs"].setdefault(a, k)
      for m, sig in b["methods"].items():
        info["methods"].setdefault(m, sig)
    lines = ["class %s%s:" % (name, "(%s)" % ", ".join(bases) if bases else "")]
    for _ in range(self.i(0, 2)):
      a = self.pick(["x", "y", "z", "w"])
      k = self.some_kind(1, allow_inst=False)
      lines.append("  %s = %s" % (a, self.expr({}, k, 1)))
      if a in info["attrs"] and info["attrs"][a] != k:
        self.features.add("override-different-kind")
      info["attrs"][a] = k
    own_init = not base_infos or self.chance(40)
    if own_init:
      nparams = self.i(0, 2)
      ps = [(self.fresh("p"), self.some_kind(1, allow_inst=False))
            for _ in range(nparams)]
      info["init_params"] = ps
      lines.append("  def __init__(self%s):" % "".join(", " + p for p, _ in ps))
      body = []
      if base_infos and self.chance(50) and not base_infos[0]["init_params"]:
        body.append("    super().__init__()")
        self.features.add("super")
      for p, k in ps:
        a = self.pick(["a", "b", "c", "x"])
        body.append("    self.%s = %s" % (a, p))
        if a in info["attrs"] and info["attrs"][a] != k:
          self.features.add("override-different-kind")
        info["attrs"][a] = k
      if self.chance(40):
        a = self.pick(["n", "m"])
        k = self.some_kind(0)
        body.append("    self.%s = %s" % (a, self.expr({}, k, 1)))
        info["attrs"][a] = k
      lines += body or ["    pass"]
    else:
      info["init_params"] = list(base_infos[0]["init_params"])
    used_m = set()
    for _ in range(self.i(0, 2)):
      mname = self.pick([m for m in ["m1", "m2", "get", "calc"]
                         if m not in used_m])
      used_m.add(mname)
      style = self.pick(["method", "method", "method", "property", "static",
                         "class"])
      if style == "method":
        ml, minfo = self.func_def({}, "  ", method_of=info, name=mname)
        lines += ml
        info["methods"][mname] = (minfo["params"], minfo["ret"])
      elif style == "property":
        self.features.add("property")
        k = self.some_kind(0)
        pn = self.pick(["prop", "val"])
        lines += ["  @property", "  def %s(self):" % pn,
                  "    return %s" % self.expr({}, k, 1)]
        info["attrs"][pn] = k
      elif style == "static":
        self.features.add("staticmethod")
        k = self.some_kind(0)
        lines += ["  @staticmethod", "  def smeth(q):",
                  "    return %s" % self.expr({"q": "int"}, k, 1)]
        info["methods"]["smeth"] = ([("q", "int", False, "pos")], k)
      else:
        self.features.add("classmethod")
        lines += ["  @classmethod", "  def make(cls):",
                  "    return %s" % self.expr({}, "int", 1)]
        info["methods"]["make"] = ([], "int")
    nested_uses = []
    if self.cfg.nested and self.chance(25):
      lines += self.nested_class(indent="  ", depth=1, path=name,
                                 uses=nested_uses)
    if self.chance(30):
      # special methods (some are implicitly class/static methods)
      self.features.add("dunder")
      for d in self.draw(st.lists(st.sampled_from(sorted(DUNDERS)),
                                  min_size=1, max_size=3, unique=True)):
        lines += ["  " + l for l in DUNDERS[d]]
    if len(lines) == 1:
      lines.append("  pass")
    self.classes.append(info)
    # module-level uses of the nested classes (reached through the class)
    for qual, has_init, meths in nested_uses:
      o = self.fresh("n")
      env[o] = "Any"
      lines.append("%s = %s(%s)" % (
          o, qual, self.expr({}, self.some_kind(0, False), 1)
          if has_init else ""))
      for m in meths:
        r = self.fresh("r")
        env[r] = "Any"
        lines.append("%s = %s.%s()" % (r, o, m))
    return lines

  def nested_class(self, indent, depth, path="", uses=None):
    """A class nested in a class (optionally generic, optionally one more
    level); its name may coincide with a module-level class."""
    self.features.add("nested-class")
    if self.classes and self.chance(25):
      shadowed = self.pick(self.classes)
      name = shadowed["name"]                     # shadows a module-level class
      self.features.add("nested-class-shadows-module-class")
    else:
      shadowed = None
      name = self.fresh("N")
    generic = self.chance(35)
    if generic:
      self.features.add("generic-class")
      self.needs_typing.update(["Generic", "TypeVar"])
      self.uses_T = True
    lines = ["%sclass %s%s:" % (indent, name, "(Generic[T])" if generic else "")]
    ind = indent + "  "
    lines.append("%sz = %s" % (ind, self.expr({}, self.some_kind(0, False), 1)))
    if self.chance(70):
      ann = ": T" if generic and self.chance(60) else ""
      lines += ["%sdef __init__(self, q%s):" % (ind, ann),
                "%s  self.q = q" % ind]
    if self.chance(60):
      ret = " -> T" if generic and self.chance(50) else ""
      lines += ["%sdef get(self)%s:" % (ind, ret),
                "%s  return self.z" % ind if not ret else "%s  return self.q" % ind]
      if ret and "self.q = q" not in "\n".join(lines):
        lines[-1] = "%s  return None" % ind
    meths = []
    has_init = any("def __init__" in l for l in lines)
    if "def get(self)" in "\n".join(lines):
      meths.append("get")
    if self.chance(50):
      lines += ["%sdef me(self):" % ind, "%s  return self" % ind]
      meths.append("me")
    if self.chance(40):
      lines += ["%sdef mk(self):" % ind, "%s  return [type(self), self]" % ind]
      meths.append("mk")
    if shadowed is not None and not shadowed["init_params"]:
      # inside a method the bare name is the *module-level* class
      self.features.add("nested-method-returns-shadowed-module-class")
      lines += ["%sdef up(self):" % ind, "%s  return %s()" % (ind, name)]
      meths.append("up")
    if uses is not None and path:
      uses.append(("%s.%s" % (path, name), has_init, meths))
    if depth < 2 and self.chance(30):
      lines += self.nested_class(ind, depth + 1, path="%s.%s" % (path, name),
                                 uses=uses)
    return lines

  def generic_class_def(self, env):
    """A top-level generic class and a use of it."""
    self.features.add("generic-class")
    self.needs_typing.update(["Generic", "TypeVar"])
    self.uses_T = True
    name = self.fresh("G")
    lines = ["class %s(Generic[T]):" % name,
             "  def __init__(self, v: T):", "    self.v = v",
             "  def get(self) -> T:", "    return self.v",
             "  def put(self, v: T) -> None:", "    self.v = v"]
    k = self.some_kind(0, False)
    o = self.fresh("o")
    r = self.fresh("r")
    lines += ["%s = %s(%s)" % (o, name, self.expr(env, k, 1)),
              "%s = %s.get()" % (r, o)]
    env[r] = k
    return lines

  def use_instance(self, env):
    """obj = C(...); v = obj.attr; r = obj.method(...)"""
    cls = self.pick(self.classes)
    on = self.fresh("o")
    lines = ["%s = %s" % (on, self.compound(env, ("inst", cls["name"]), 1))]
    env[on] = ("inst", cls["name"])
    self.features.add("instance")
    if cls["attrs"] and self.chance(70):
      a = self.pick(sorted(cls["attrs"]))
      vn = self.fresh("v")
      lines.append("%s = %s.%s" % (vn, on, a))
      env[vn] = cls["attrs"][a]
      self.features.add("attribute-read")
    if cls["methods"] and self.chance(60):
      m = self.pick(sorted(cls["methods"]))
      params, ret = cls["methods"][m]
      vn = self.fresh("r")
      f = {"name": "%s.%s" % (on, m), "params": params, "ret": ret}
      lines.append("%s = %s(%s)" % (vn, f["name"], self.call_args(env, f, 1)))
      env[vn] = ret
      self.features.add("method-call")
    if self.chance(25):
      a = self.pick(["ext", "a", "x"])
      k = self.some_kind(0)
      lines.append("%s.%s = %s" % (on, a, self.expr(env, k, 1)))
      self.features.add("attribute-set-from-outside")
    return lines

  def call_stmt(self, env):
    f = self.pick([f for f in self.funcs if not f.get("gen")])
    vn = self.fresh("r")
    self.features.add("call")
    args = self.call_args(env, f, 2)
    env[vn] = f["ret"]
    return ["%s = %s(%s)" % (vn, f["name"], args)]

  def dispatch_stmt(self, env):
    """A function whose result kind depends on the class of its argument,
    called with constants that are equal / hash-equal but of different
    classes (1 / True / 1.0, 'k' / b'k', 0 / False / None)."""
    self.features.add("type-dispatch")
    f = self.fresh("f")
    tests = self.draw(st.lists(st.sampled_from(
        ["bool", "int", "float", "str", "bytes", "type(None)"]), min_size=1,
                               max_size=3, unique=True))
    lines = ["def %s(p):" % f]
    kinds = []
    for t in tests:
      k = self.some_kind(0, False)
      kinds.append(k)
      lines += ["  if isinstance(p, %s):" % t,
                "    return %s" % self.expr({}, k, 1)]
    k = self.some_kind(0, False)
    kinds.append(k)
    lines.append("  return %s" % self.expr({}, k, 1))
    args = self.draw(st.lists(st.sampled_from(
        ["1", "True", "1.0", "0", "False", "None", "'k'", "b'k'", "''",
         "b''"]), min_size=2, max_size=4))
    for a in args:
      v = self.fresh("r")
      lines.append("%s = %s(%s)" % (v, f, a))
      env[v] = ("union",) + tuple(kinds)
    return lines

  def flow_stmt(self, env):
    """Conditional mutation of a container / attribute followed by a read:
    the read must keep every value that can be there."""
    # "dict-in" and "attr-store" reproduce two recorded C01 findings whose
    # wrong type then poisons later branches of the same program; they are
    # excluded here by construction (Cfg.known_flow re-enables them) and stay
    # covered by the recorded inputs in known_findings.json.
    kinds = ["dict-store", "list-mutate", "list-insert", "dict-del", "set-add",
             "nested-store"]
    if getattr(self.cfg, "known_flow", False):
      kinds += ["dict-in", "attr-store"]
    kind = self.pick(kinds)
    self.features.add("flow:" + kind)
    v = self.fresh("v")
    k1, k2 = self.some_kind(0, False), self.some_kind(0, False)
    e1, e2 = self.expr({}, k1, 1), self.expr({}, k2, 1)
    c = self.cond(env, 1)
    env[v] = ("union", k1, k2)
    if kind == "dict-store":
      d = self.fresh("d")
      key = self.pick(["'a'", "1", "'k'"])
      return ["%s = {%s: %s, 'z': 0}" % (d, key, e1), "if %s:" % c,
              "  %s[%s] = %s" % (d, key, e2), "%s = %s[%s]" % (v, d, key)]
    if kind == "dict-in":
      d = self.fresh("d")
      w = self.fresh("v")
      env[w] = "bool"
      return ["%s = {}" % d, "if %s:" % c, "  %s['k'] = %s" % (d, e1),
              "%s = 'k' in %s" % (w, d),
              "%s = %s if 'k' in %s else %s" % (v, e1, d, e2)]
    if kind == "attr-store":
      cn = self.fresh("K")
      o = self.fresh("o")
      return ["class %s:" % cn, "  x = %s" % e1, "  def set(self, flag):",
              "    if flag:", "      self.x = %s" % e2,
              "%s = %s()" % (o, cn), "%s.set(%s)" % (o, c),
              "%s = %s.x" % (v, o)]
    if kind == "list-mutate":
      l = self.fresh("l")
      op = self.pick(["reverse()", "sort(key=str)", "pop(0)", "clear()"])
      w = self.fresh("v")
      env[w] = ("union", k1, k2)
      return ["%s = [%s, %s]" % (l, e1, e2), "%s.%s" % (l, op),
              "%s = %s[0] if %s else %s" % (v, l, l, e1),
              "%s = %s[-1] if %s else %s" % (w, l, l, e2)]
    if kind == "list-insert":
      l = self.fresh("l")
      op = self.pick(["insert(0, %s)", "append(%s)", "extend([%s])",
                      "__iadd__([%s])"]) % e2
      return ["%s = [%s]" % (l, e1), "if %s:" % c, "  %s.%s" % (l, op),
              "%s = %s[0]" % (v, l), "%s = %s[-1]" % (self.fresh("v"), l)]
    if kind == "dict-del":
      d = self.fresh("d")
      return ["%s = {'a': %s, 'b': %s}" % (d, e1, e2), "if %s:" % c,
              "  del %s['a']" % d, "%s = %s.get('a', %s)" % (v, d, e2)]
    if kind == "set-add":
      st_ = self.fresh("s")
      hk1 = self.pick(["1", "'a'", "2.5"])
      hk2 = self.pick(["None", "b'x'", "True"])
      return ["%s = {%s}" % (st_, hk1), "if %s:" % c,
              "  %s.add(%s)" % (st_, hk2), "%s = sorted(%s, key=str)[0]" % (
                  v, st_)]
    # nested-store
    d = self.fresh("d")
    return ["%s = {'o': {'i': %s}}" % (d, e1), "if %s:" % c,
            "  %s['o']['i'] = %s" % (d, e2), "%s = %s['o']['i']" % (v, d)]

  def diamond_stmt(self, env):
    """A diamond with cooperative super() calls: what super() reaches depends
    on the instance's class, not on the class the method is written in."""
    self.features.add("diamond-super")
    b, l, r, d = (self.fresh("B"), self.fresh("L"), self.fresh("R"),
                  self.fresh("D"))
    k1, k2 = self.some_kind(0, False), self.some_kind(0, False)
    e1, e2 = self.expr({}, k1, 1), self.expr({}, k2, 1)
    v1, v2, v3, v4 = (self.fresh("v"), self.fresh("v"), self.fresh("v"),
                      self.fresh("v"))
    for v in (v1, v2, v3, v4):
      env[v] = ("union", k1, k2)
    order = self.pick(["%s, %s" % (l, r), "%s, %s" % (r, l)])
    return ["class %s:" % b, "  def __init__(self):", "    self.tag = %s" % e1,
            "  def describe(self):", "    return %s" % e1,
            "class %s(%s):" % (l, b), "  def __init__(self):",
            "    super().__init__()", "  def describe(self):",
            "    return super().describe()",
            "class %s(%s):" % (r, b), "  def __init__(self):",
            "    self.tag = %s" % e2, "  def describe(self):",
            "    return %s" % e2,
            "class %s(%s):" % (d, order), "  pass",
            "%s = %s().describe()" % (v1, d), "%s = %s().tag" % (v2, d),
            "%s = %s().describe()" % (v3, l), "%s = %s().tag" % (v4, l)]

  def lambda_stmt(self, env):
    self.features.add("lambda")
    ln = self.fresh("lam")
    k = self.pick(["int", "str"])
    body = {"int": "q + 1", "str": "str(q)"}[k]
    vn = self.fresh("r")
    arg = self.expr(env, "int", 1)
    env[vn] = k
    return ["%s = lambda q: %s" % (ln, body), "%s = %s(%s)" % (vn, ln, arg)]

  def module_name(self, module, alias):
    """Imports `module` (once per program: plainly or under `alias`) and
    returns the name it is known by."""
    known = getattr(self, "_module_names", None)
    if known is None:
      known = self._module_names = {}
    if module not in known:
      if self.chance(35):
        self.features.add("aliased-import")
        self.imports.add("import %s as %s" % (module, alias))
        known[module] = alias
      else:
        self.imports.add("import %s" % module)
        known[module] = module
    return known[module]

  # ---- extended fragment (C15/C16/C04/C05)
  def extended_stmt(self, env):
    cfg = self.cfg
    opts = []
    if cfg.loops:
      opts += ["for", "while", "for-else", "nested-loop"]
    if cfg.generators:
      opts += ["gen", "genexp", "yield-from"]
    if cfg.async_:
      opts += ["async", "async-for", "async-with"]
    if cfg.with_:
      opts += ["with"]
    if cfg.finally_:
      opts += ["try-finally", "try-else", "try-as-if-finally",
               "try-return-finally", "try-multi"]
    opts += ["nested-literal", "big-literal", "edge-index", "last-implicit",
             "fstring", "odd-signature"]
    if cfg.loops:
      opts += ["fstring-loop"]
    if cfg.match:
      opts += ["match-map-value-key"]
    if cfg.nested:
      opts += ["enum", "namedtuple", "typeddict", "typeddict-functional",
               "collections"]
    if cfg.match:
      opts += ["match", "match-class", "match-seq"]
    if cfg.decorators:
      opts += ["decorator"]
    if cfg.star:
      opts += ["star-assign", "star-call", "dict-unpack"]
    if cfg.global_:
      opts += ["global", "nonlocal"]
    if cfg.walrus:
      opts += ["walrus"]
    if not opts:
      return self.assign(env)
    o = self.pick(opts)
    self.features.add("x:" + o)
    v = self.fresh("v")
    e = lambda k: self.expr(env, k, 1)
    if o == "for":
      env[v] = "int"
      return ["%s = 0" % v, "for %s in %s:" % (self.fresh("i"),
                                               e(("list", "int"))),
              "  %s = %s + 1" % (v, v)]
    if o == "while":
      env[v] = "int"
      return ["%s = 0" % v, "while %s < 3:" % v, "  %s += 1" % v,
              "  if %s:" % self.cond(env, 1), "    break"]
    if o == "for-else":
      env[v] = ("union", "int", "str")
      i = self.fresh("i")
      return ["for %s in range(2):" % i, "  if %s:" % self.cond(env, 1),
              "    %s = %s" % (v, i), "    break", "else:", "  %s = 'none'" % v]
    if o == "nested-loop":
      env[v] = ("list", "int")
      return ["%s = []" % v, "for a_ in range(2):", "  for b_ in range(2):",
              "    if a_ == b_:", "      continue",
              "    %s.append(a_ * b_)" % v]
    if o == "gen":
      g = self.fresh("g")
      self.funcs.append({"name": g, "params": [], "ret": "none", "gen": True})
      env[v] = ("list", "int")
      return ["def %s(n):" % g, "  k = 0", "  while k < n:", "    yield k",
              "    k += 1", "%s = list(%s(3))" % (v, g)]
    if o == "genexp":
      env[v] = "int"
      return ["%s = sum(q * 2 for q in %s if q)" % (v, e(("list", "int")))]
    if o == "yield-from":
      g = self.fresh("g")
      env[v] = ("list", "int")
      return ["def %s():" % g, "  yield from [1, 2]",
              "  x_ = yield 3", "  return x_",
              "%s = list(%s())" % (v, g)]
    if o == "async":
      f = self.fresh("co")
      return ["async def %s(x):" % f, "  return x",
              "async def %s_main():" % f, "  r = await %s(%s)" % (f, e("int")),
              "  return r"]
    if o == "async-for":
      f = self.fresh("ag")
      return ["async def %s():" % f, "  yield 1", "  yield 'a'",
              "async def %s_main():" % f, "  out = []",
              "  async for q in %s():" % f, "    out.append(q)",
              "  return [z async for z in %s()]" % f]
    if o == "async-with":
      c = self.fresh("ACM")
      return ["class %s:" % c, "  async def __aenter__(self):", "    return 1",
              "  async def __aexit__(self, *a):", "    return False",
              "async def %s_main():" % c.lower(),
              "  async with %s() as q:" % c, "    return q"]
    if o == "with":
      c = self.fresh("CM")
      env[v] = "str"
      return ["class %s:" % c, "  def __enter__(self):", "    return 'r'",
              "  def __exit__(self, *a):", "    return False",
              "with %s() as %s:" % (c, v), "  %s = %s + 'x'" % (self.fresh("w"),
                                                                 v)]
    if o == "try-finally":
      env[v] = "int"
      return ["%s = 0" % v, "try:", "  %s = %s" % (v, e("int")),
              "finally:", "  %s = %s" % (self.fresh("f"), e("str"))]
    if o == "try-as-if-finally":
      f = self.fresh("f")
      env[v] = "int"
      return ["def %s(x):" % f, "  try:", "    q_ = int(x)",
              "  except (ValueError, TypeError) as e_:",
              "    if x:", "      q_ = len(str(e_))", "    else:",
              "      q_ = -1", "  finally:", "    w_ = 0", "  return q_",
              "%s = %s('7')" % (v, f)]
    if o == "try-return-finally":
      f = self.fresh("f")
      env[v] = ("union", "int", "str")
      return ["def %s(x):" % f, "  for i_ in range(2):", "    try:",
              "      if x: return i_", "    except KeyError as e_:",
              "      if i_: continue", "      return str(e_)",
              "    finally:", "      x = not x", "  return 0",
              "%s = %s(%s)" % (v, f, self.expr(env, "bool", 0))]
    if o == "try-multi":
      env[v] = ("union", "int", "str", "none")
      return ["try:", "  %s = int('1')" % v, "except ValueError:",
              "  %s = 's'" % v, "except (KeyError, IndexError) as ex_:",
              "  %s = None" % v, "  raise", "else:", "  pass", "finally:",
              "  pass"]
    if o == "edge-index":
      env[v] = "int"
      seq = self.pick(["(1, 'a')", "[1, 2, 3]", "()", "'abc'", "(1,)",
                       "b'ab'", "[[1], [2]]"])
      n = len(eval(seq))  # pylint: disable=eval-used
      idx = self.pick([n, -n - 1, n + 3, -n, n - 1, 0])
      t = self.fresh("t")
      return ["%s = %s" % (t, seq), "try:", "  %s = %s[%d]" % (v, t, idx),
              "except IndexError:", "  %s = 0" % v]
    if o == "last-implicit":
      f = self.fresh("f")
      env[v] = "int"
      self.tail.append("def %s(x) -> int:\n  if x:\n    return 1" % f)
      return ["%s = 0" % v]
    if o == "nested-literal":
      env[v] = ("set", ("tuple", "int", "str"))
      shape = self.pick(["{(1, 2), (3, 'a')}", "[(1, 'a'), (2, 'b')]",
                         "{(1, 2): 'x', (3, 4): 'y'}", "{(1, (2, 3))}",
                         "((1, 2), [3, (4, 5)], {6: (7,)})",
                         "{frozenset({1}), frozenset({2})}",
                         "[[1, 2], [3, [4, 5]], []]", "{'a': {'b': {'c': 1}}}",
                         "[None, (), [], {}, '', b'', 0.0]"])
      return ["%s = %s" % (v, shape)]
    if o == "big-literal":
      env[v] = ("list", "int")
      n = self.pick([63, 64, 65, 70, 130])
      kind = self.pick(["ints", "tuples", "dict", "mixed", "strs"])
      if kind == "ints":
        body = "[%s]" % ", ".join(str(i) for i in range(n))
      elif kind == "tuples":
        body = "[%s]" % ", ".join("(%d, 'a')" % i for i in range(n))
      elif kind == "dict":
        body = "{%s}" % ", ".join("(%d, %d): %d" % (i, i, i) for i in range(n))
      elif kind == "strs":
        body = "{%s}" % ", ".join("'k%d'" % i for i in range(n))
      else:
        body = "[%s]" % ", ".join(["1", "'a'", "(1, 2)", "None"][i % 4]
                                  for i in range(n))
      return ["%s = %s" % (v, body)]
    if o == "enum":
      mod = self.module_name("enum", "en")
      e = self.fresh("E")
      env[v] = "int"
      members = self.draw(st.lists(st.sampled_from(
          ["A = 1", "B = 2", "C = 'c'", "D = (1, 2)", "F = None", "G = 2.5"]),
                                   min_size=1, max_size=4, unique=True))
      base = self.pick(["enum.Enum", "enum.Enum", "enum.IntEnum", "enum.Flag"])
      if base != "enum.Enum":
        members = [m for m in members if m[-1].isdigit()] or ["A = 1"]
      first = members[0].split(" = ")[0]
      base = base.replace("enum.", mod + ".")
      return (["class %s(%s):" % (e, base)] + ["  " + m for m in members] +
              ["  def describe(self):", "    return self.name",
               "%s = %s.%s" % (self.fresh("m"), e, first),
               "%s = %s.%s.value" % (v, e, first)])
    if o == "namedtuple":
      self.needs_typing.add("NamedTuple")
      n = self.fresh("NT")
      env[v] = "int"
      return ["class %s(NamedTuple):" % n, "  x: int", "  y: str = 's'",
              "  def total(self):", "    return self.x + len(self.y)",
              "%s = %s(1)" % (self.fresh("p"), n),
              "%s = %s(2, 't').total()" % (v, n)]
    if o == "typeddict":
      self.needs_typing.add("TypedDict")
      n = self.fresh("TD")
      env[v] = "int"
      tv = self.fresh("t")
      return ["class %s(TypedDict):" % n, "  k: int", "  name: str",
              "%s: %s = {'k': 1, 'name': 'n'}" % (tv, n),
              "%s = %s['k']" % (v, tv)]
    if o == "typeddict-functional":
      self.needs_typing.add("TypedDict")
      n = self.fresh("TF")
      env[v] = "int"
      keys = self.pick(["{'a': int, 'b': str}", "{'a': int, 'b-c': str}",
                        "{'class': int}", "{'x y': float, 'z': int}"])
      return ["%s = TypedDict('%s', %s)" % (n, n, keys), "%s = 1" % v]
    if o == "collections":
      mod = self.module_name("collections", "coll")
      env[v] = "int"
      n = self.fresh("Pt")
      return ["%s = %s.namedtuple('%s', ['x', 'y'])" % (n, mod, n),
              "%s = %s(1, 2)" % (self.fresh("q"), n),
              "%s = %s.OrderedDict()" % (self.fresh("od"), mod),
              "%s = %s.defaultdict(list)" % (self.fresh("dd"), mod),
              "%s = %s(3, 4).x" % (v, n)]
    if o == "try-else":
      env[v] = ("union", "int", "str")
      return ["try:", "  t_ = int('3')", "except (ValueError, TypeError) as ex_:",
              "  %s = str(ex_)" % v, "else:", "  %s = t_" % v]
    if o == "match":
      env[v] = "str"
      return ["match %s:" % e("int"), "  case 0:", "    %s = 'zero'" % v,
              "  case 1 | 2:", "    %s = 'small'" % v, "  case _:",
              "    %s = 'big'" % v]
    if o == "match-class":
      env[v] = ("union", "int", "str")
      subj = self.fresh("s")
      return ["%s = %s" % (subj, self.expr(env, ("union", "int", "str"), 1)),
              "match %s:" % subj, "  case int(q_):", "    %s = q_" % v,
              "  case str() as q_:", "    %s = q_" % v, "  case _:",
              "    %s = 0" % v]
    if o == "match-seq":
      env[v] = "int"
      return ["match %s:" % e(("list", "int")), "  case []:", "    %s = 0" % v,
              "  case [a_]:", "    %s = a_" % v, "  case [a_, *rest_]:",
              "    %s = a_ + len(rest_)" % v, "  case {'k': kk_}:",
              "    %s = 1" % v]
    if o == "decorator":
      d = self.fresh("deco")
      f = self.fresh("f")
      env[v] = "int"
      return ["def %s(fn):" % d, "  def inner(*a, **k):",
              "    return fn(*a, **k)", "  return inner", "@%s" % d,
              "def %s(x):" % f, "  return x + 1", "%s = %s(1)" % (v, f)]
    if o == "star-assign":
      env[v] = "int"
      return ["%s, *%s = %s" % (v, self.fresh("rest"),
                                "[1, 2, 3]")]
    if o == "star-call":
      env[v] = "int"
      return ["%s = max(*[1, 2], *(3,))" % v]
    if o == "dict-unpack":
      env[v] = ("dict", "str", "int")
      return ["%s = {**{'a': 1}, 'b': 2}" % v]
    if o == "global":
      gname = self.fresh("G")
      f = self.fresh("f")
      env[gname] = ("union", "int", "str")
      return ["%s = 0" % gname, "def %s():" % f, "  global %s" % gname,
              "  %s = 'changed'" % gname, "%s()" % f]
    if o == "nonlocal":
      f = self.fresh("f")
      env[v] = "int"
      return ["def %s():" % f, "  c_ = 0", "  def inc():",
              "    nonlocal c_", "    c_ += 1", "    return c_",
              "  return inc()", "%s = %s()" % (v, f)]
    if o in ("fstring", "fstring-loop"):
      env[v] = "str"
      w = self.fresh("w")
      fields = ["{%s}", "{%s!r}", "{%s!s:>5}", "{%s:>{W}}", "{%s!r:>{W}}",
                "{%s!a:{W}.{W}}", "{%s=}", "{%s=!r:^{W}}", "{{%s}}",
                "{%s:{W}}{%s!r:<{W}}"]
      parts = []
      for _ in range(self.i(1, 3)):
        f_ = self.pick(fields)
        parts.append((f_ % (("q",) * f_.count("%s"))).replace("W", w))
      lit = "f'" + " ".join(parts) + "'"
      if o == "fstring":
        return ["%s = 3" % w, "q = %s" % e(self.pick(["int", "str", "float"])),
                "%s = %s" % (v, lit)]
      return ["%s = 3" % w, "%s = ''" % v,
              "for q in [%s, %s]:" % (e("int"), e("str")),
              "  %s = %s" % (v, lit),
              "  if q:", "    %s += %s" % (v, lit)]
    if o == "odd-signature":
      # methods whose first parameter is not a plain name
      cn = self.fresh("O")
      env[v] = "Any"
      return ["class %s:" % cn, "  @classmethod",
              "  def build(*args, **kwargs):", "    return args",
              "  @classmethod", "  def none():", "    return 0",
              "  @staticmethod", "  def st(*a):", "    return a",
              "  def meth(*args):", "    return args",
              "  @property", "  def prop(*a):", "    return a",
              "%s = (%s.build(), %s().meth(), %s.st(1), %s().prop)" % (
                  v, cn, cn, cn, cn),
              "try:", "  %s = %s.none()" % (self.fresh("t"), cn),
              "except TypeError:", "  pass"]
    if o == "match-map-value-key":
      cn = self.fresh("M")
      env[v] = "Any"
      return ["class %s:" % cn, "  A = str(3)", "  B = 'b'", "  C = 1",
              "def %s_f(x):" % cn, "  match x:",
              "    case {%s.A: a1}:" % cn, "      return a1",
              "    case {%s.B: b1, %s.C: c1, **rest}:" % (cn, cn),
              "      return (b1, c1, rest)",
              "    case {'k': %s.A}:" % cn, "      return 0",
              "    case %s.A | %s.B:" % (cn, cn), "      return 1",
              "  return None",
              "%s = %s_f({'3': 1})" % (v, cn)]
    if o == "walrus":
      env[v] = "int"
      return ["if (%s := %s) > 1:" % (v, e("int")),
              "  %s = %s" % (self.fresh("w"), v)]
    raise AssertionError(o)

  # ---- whole program
  def program(self):
    env = {}
    stmts = []
    n = self.i(*self.cfg.n_stmts)
    ext = any([self.cfg.loops, self.cfg.generators, self.cfg.async_,
               self.cfg.with_, self.cfg.match, self.cfg.decorators,
               self.cfg.star, self.cfg.global_, self.cfg.walrus])
    for idx in range(n):
      menu = ["assign"] * 4 + ["if"] * 3 + ["mutate"]
      if self.cfg.functions:
        menu += ["func"] * (3 if len(self.funcs) < 3 else 1)
      if self.cfg.classes:
        menu += ["class"] * (4 if len(self.classes) < 3 else 1)
      if self.classes:
        menu += ["use"] * 5
      if [f for f in self.funcs if not f.get("gen")]:
        menu += ["call"] * 4
      if self.cfg.try_:
        menu += ["try"]
      if self.cfg.nested:
        menu += ["generic"]
      if self.cfg.lambdas:
        menu += ["lambda"]
      if self.cfg.functions:
        menu += ["dispatch"]
      menu += ["flow"] * 2
      if self.cfg.classes:
        menu += ["diamond"]
      if ext:
        menu += ["ext"] * 5
      c = self.pick(menu)
      if c == "assign":
        lines = self.assign(env)
      elif c == "if":
        lines = self.if_stmt(env)
      elif c == "func":
        lines, info = self.func_def(env)
        self.funcs.append(info)
      elif c == "class":
        lines = self.class_def(env)
      elif c == "use":
        lines = self.use_instance(env)
      elif c == "call":
        lines = self.call_stmt(env)
      elif c == "try":
        lines = self.try_stmt(env, "")
      elif c == "generic":
        lines = self.generic_class_def(env)
      elif c == "lambda":
        lines = self.lambda_stmt(env)
      elif c == "dispatch":
        lines = self.dispatch_stmt(env)
      elif c == "flow":
        lines = self.flow_stmt(env)
      elif c == "diamond":
        lines = self.diamond_stmt(env)
      elif c == "mutate":
        lines = self.mutate_stmt(env, "")
      else:
        lines = self.extended_stmt(env)
      if ext and self.chance(25):
        lines = lines + self.extended_stmt(env)
      stmts.append("\n".join(lines))
    if self.tail:
      stmts.append(self.tail[-1])
    header = []
    if self.needs_typing:
      header.append("from typing import %s" % ", ".join(sorted(
          self.needs_typing)))
    header += sorted(self.imports)
    if self.uses_T:
      header.append("T = TypeVar('T')")
    return {"header": header, "stmts": stmts, "features": sorted(self.features),
            "env": {k: kind_str(v) for k, v in env.items()}}


def render(prog, upto=None):
  parts = list(prog["header"]) + list(prog["stmts"][:upto])
  return "\n".join(parts) + "\n"


@st.composite
def program(draw, cfg=None):
  g = G(draw, cfg or Cfg())
  return g.program()
