"""Run pytype's analysis in-process on a source string."""

import logging

from vlib import boot

PYVER = (3, 12)


class Result:

  def __init__(self, pyi, ast, errors, ret):
    self.pyi = pyi
    self.ast = ast
    self.errors = errors       # list of (name, line, message)
    self.ret = ret

  def error_lines(self, names=None):
    return sorted({(e[0], e[1]) for e in self.errors
                   if names is None or e[0] in names})


def options(name="m.py", **kw):
  boot.ensure()
  from pytype import config
  kw.setdefault("python_version", PYVER)
  return config.Options.create(name, **kw)


def errors_of(errorlog):
  out = []
  for e in errorlog:
    out.append((e.name, e.line, str(e.message)))
  return out


def infer(src, name="m.py", loader=None, **kw):
  """io.generate_pyi -> Result.  Exceptions propagate."""
  boot.ensure()
  logging.disable(logging.CRITICAL)
  from pytype import io
  opts = options(name, **kw)
  ret, pyi = io.generate_pyi(src, opts, loader)
  return Result(pyi, ret.ast, errors_of(ret.context.errorlog), ret)


def check(src, name="m.py", loader=None, **kw):
  """io.check_py -> Result (no stub)."""
  boot.ensure()
  logging.disable(logging.CRITICAL)
  from pytype import io
  opts = options(name, **kw)
  ret = io.check_py(src, opts, loader)
  return Result(None, None, errors_of(ret.context.errorlog), ret)
