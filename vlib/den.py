"""Finite-universe denotational semantics for pytd types (C11 oracle).

den_lower(T)  = values *certainly* admitted by T   (used for "before")
den_upper(T)  = values *possibly* admitted by T     (used for "after")
Both are bitmasks over a fixed universe of abstract values.  For every
construct the oracle models exactly, lower == upper; for unmodelled constructs
lower = {} and upper = everything, so the check  lower(before) <= upper(after)
can miss a narrowing but never reports one that is not there.

Class membership is decided by the *stub* hierarchy (bases of the loaded pytd
classes), not by Python's isinstance.
"""

import itertools

from vlib import boot

SCALAR_CLASSES = ["builtins.int", "builtins.float", "builtins.complex",
                  "builtins.bool", "builtins.str", "builtins.bytes",
                  "builtins.NoneType", "builtins.object"]
LITS = [(1, "builtins.int"), (2, "builtins.int"), (0, "builtins.int"),
        (-1, "builtins.int"), ("a", "builtins.str"), ("b", "builtins.str"),
        ("", "builtins.str"), (b"x", "builtins.bytes"),
        (True, "builtins.bool"), (False, "builtins.bool")]

ELEM_PARAM = {  # generic base -> ("elem",) or ("kv",)
    "builtins.list": "elem", "builtins.set": "elem",
    "builtins.frozenset": "elem",
    "typing.Sequence": "elem", "typing.MutableSequence": "elem",
    "typing.Iterable": "elem", "typing.Collection": "elem",
    "typing.Container": "elem", "typing.AbstractSet": "elem",
    "typing.MutableSet": "elem", "typing.Reversible": "elem",
    "typing.List": "elem", "typing.Set": "elem", "typing.FrozenSet": "elem",
    "builtins.dict": "kv", "typing.Mapping": "kv",
    "typing.MutableMapping": "kv", "typing.Dict": "kv",
}
KIND_CLASS = {"list": "builtins.list", "set": "builtins.set",
              "frozenset": "builtins.frozenset", "dict": "builtins.dict",
              "tuple": "builtins.tuple", "callable": "typing.Callable",
              "type": "builtins.type"}


class Universe:
  """Abstract values.  A value is a tuple:
       ("inst", cls) | ("lit", v, cls) | ("list"|"set"|"frozenset", elems)
       | ("dict", ((k, v), ...)) | ("tuple", elems) | ("callable", arity, ret)
       | ("type", cls)
  """

  def __init__(self, user_classes):
    self.user_classes = list(user_classes)
    scal = [("inst", c) for c in SCALAR_CLASSES + self.user_classes]
    scal += [("lit", v, c) for v, c in LITS]
    self.scalars = scal
    small = [("inst", "builtins.int"), ("inst", "builtins.str"),
             ("inst", "builtins.float"), ("inst", "builtins.NoneType"),
             ("inst", "builtins.bool"), ("lit", 1, "builtins.int"),
             ("lit", "a", "builtins.str")]
    small += [("inst", c) for c in self.user_classes[:3]]
    d1 = []
    for kind in ("list", "set", "frozenset"):
      d1.append((kind, ()))
      for a in small:
        d1.append((kind, (a,)))
      for a, b in itertools.combinations(small, 2):
        d1.append((kind, (a, b)))
    tups = [("tuple", ())]
    for a in small:
      tups.append(("tuple", (a,)))
    for a, b in itertools.product(small[:6], repeat=2):
      tups.append(("tuple", (a, b)))
    for a, b, c in itertools.product(small[:3], repeat=3):
      tups.append(("tuple", (a, b, c)))
    dicts = [("dict", ())]
    for k, v in itertools.product(small[:5], small[:6]):
      dicts.append(("dict", ((k, v),)))
    for (k1, v1), (k2, v2) in [((small[0], small[1]), (small[1], small[0])),
                               ((small[0], small[0]), (small[1], small[1]))]:
      dicts.append(("dict", ((k1, v1), (k2, v2))))
    calls = [("callable", n, r) for n in range(4) for r in small[:6]]
    types = [("type", c) for c in SCALAR_CLASSES[:6] + self.user_classes]
    # depth 2: containers of a few depth-1 values
    picks = [("list", ()), ("list", (small[0],)), ("list", (small[1],)),
             ("tuple", (small[0],)), ("tuple", (small[0], small[1])),
             ("set", (small[0],)), ("dict", ()),
             ("dict", ((small[0], small[1]),)), ("callable", 0, small[0]),
             ("callable", 1, small[1])]
    d2 = []
    for kind in ("list", "set", "tuple"):
      for a in picks:
        d2.append((kind, (a,)))
      for a, b in itertools.combinations(picks[:6], 2):
        d2.append((kind, (a, b)))
    for k in small[:2]:
      for v in picks[:6]:
        d2.append(("dict", ((k, v),)))
    for r in picks[:6]:
      d2.append(("callable", 1, r))
    self.values = scal + d1 + tups + dicts + calls + types + d2
    self.index = {v: i for i, v in enumerate(self.values)}
    self.full = (1 << len(self.values)) - 1


def value_class(u):
  if u[0] == "inst":
    return u[1]
  if u[0] == "lit":
    return u[2]
  return KIND_CLASS[u[0]]


class Den:
  """Membership for one (universe, hierarchy)."""

  def __init__(self, universe, superclasses):
    boot.ensure()
    from pytype.pytd import pytd
    self.pytd = pytd
    self.u = universe
    self.sup = superclasses   # name -> list of direct base names
    self._anc = {}
    self._memo = {}
    self.unmodelled = 0

  def ancestors(self, c):
    if c in self._anc:
      return self._anc[c]
    seen = set()
    todo = [c]
    while todo:
      x = todo.pop()
      if x in seen:
        continue
      seen.add(x)
      todo.extend(self.sup.get(x, ()))
    seen.add("builtins.object")
    self._anc[c] = seen
    return seen

  def is_sub(self, c, d):
    return d in self.ancestors(c)

  # adm(T, u) -> (lower, upper) booleans
  def adm(self, t, u):
    pytd = self.pytd
    if isinstance(t, pytd.AnythingType):
      return True, True
    if isinstance(t, pytd.NothingType):
      return False, False
    if isinstance(t, pytd.TypeParameter):
      return True, True
    if isinstance(t, pytd.Annotated):
      return self.adm(t.base_type, u)
    if isinstance(t, pytd.UnionType):
      lo = up = False
      for m in t.type_list:
        l, p = self.adm(m, u)
        lo = lo or l
        up = up or p
      return lo, up
    if isinstance(t, pytd.IntersectionType):
      lo = up = True
      for m in t.type_list:
        l, p = self.adm(m, u)
        lo = lo and l
        up = up and p
      return lo, up
    if isinstance(t, pytd.Literal):
      v = t.value
      if isinstance(v, pytd.Constant):   # enum member etc.
        return False, True
      if u[0] == "lit":
        same = (type(u[1]) is type(v) and u[1] == v)
        return same, same
      if v is None:
        r = u == ("inst", "builtins.NoneType")
        return r, r
      if u[0] == "inst" and u[1] in ("builtins.int", "builtins.str",
                                     "builtins.bytes", "builtins.bool"):
        # an unspecified int may or may not be the literal
        return False, type(v).__name__ == u[1].split(".")[1]
      return False, False
    if isinstance(t, (pytd.NamedType, pytd.ClassType)):
      n = t.name
      if n in ("builtins.object",):
        return True, True
      if n == "builtins.NoneType":
        r = u == ("inst", "builtins.NoneType")
        return r, r
      if n in ("typing.Callable", "builtins.function"):
        r = u[0] in ("callable",)
        return r, r or u[0] == "type"
      r = self.is_sub(value_class(u), n)
      return r, r
    if isinstance(t, pytd.TupleType):
      if u[0] != "tuple":
        return False, False
      if len(u[1]) != len(t.parameters):
        return False, False
      return self._all(zip(t.parameters, u[1]))
    if isinstance(t, pytd.CallableType):
      if u[0] == "type":
        return False, True
      if u[0] != "callable" or u[1] != len(t.args):
        return False, False
      return self.adm(t.ret, u[2])
    if isinstance(t, pytd.GenericType):
      base = t.base_type.name
      ps = t.parameters
      if base in ("builtins.tuple", "typing.Tuple"):
        if u[0] != "tuple":
          return False, False
        return self._all((ps[0], e) for e in u[1])
      if base == "typing.Callable":
        if u[0] == "type":
          return False, True
        if u[0] != "callable":
          return False, False
        return self.adm(ps[-1], u[2])
      if base in ("builtins.type", "typing.Type"):
        if u[0] != "type":
          return False, False
        return self._type_adm(ps[0], u[1])
      mode = ELEM_PARAM.get(base)
      if mode is None:
        # user generic class K[...] : erase the parameters; other library
        # generics (Generator, ...) are unmodelled
        if base in self.u.user_classes or base.split(".")[0] not in (
            "builtins", "typing"):
          r = self.is_sub(value_class(u), base)
          return r, r
        self.unmodelled += 1
        return False, True
      if not self.is_sub(value_class(u), base):
        return False, False
      if u[0] == "inst":
        # an instance of a user class deriving from this container: its
        # contents are not modelled
        return False, True
      if u[0] in ("list", "set", "frozenset", "tuple"):
        if mode != "elem":
          return False, False
        return self._all((ps[0], e) for e in u[1])
      if u[0] == "dict":
        if mode == "kv":
          return self._all([(ps[0], k) for k, _ in u[1]] +
                           [(ps[1], v) for _, v in u[1]])
        return self._all((ps[0], k) for k, _ in u[1])   # Iterable[K] etc.
      return False, True
    self.unmodelled += 1
    return False, True

  def _type_adm(self, t, cls):
    pytd = self.pytd
    if isinstance(t, (pytd.AnythingType, pytd.TypeParameter)):
      return True, True
    if isinstance(t, pytd.UnionType):
      lo = up = False
      for m in t.type_list:
        l, p = self._type_adm(m, cls)
        lo, up = lo or l, up or p
      return lo, up
    if isinstance(t, (pytd.NamedType, pytd.ClassType)):
      r = self.is_sub(cls, t.name)
      return r, r
    if isinstance(t, pytd.GenericType):
      r = self.is_sub(cls, t.base_type.name)
      return r, r
    return False, True

  def _all(self, pairs):
    lo = up = True
    for t, e in pairs:
      l, p = self.adm(t, e)
      lo = lo and l
      up = up and p
      if not up:
        return False, False
    return lo, up

  def masks(self, t):
    """(lower mask, upper mask) of type t over the universe."""
    key = (type(t).__name__, repr(t))
    if key in self._memo:
      return self._memo[key]
    lo = up = 0
    for i, u in enumerate(self.u.values):
      l, p = self.adm(t, u)
      if l:
        lo |= 1 << i
      if p:
        up |= 1 << i
    self._memo[key] = (lo, up)
    return lo, up


def superclasses_of(asts):
  """name -> [direct base names] from pytd ASTs (own walk over Class.bases)."""
  boot.ensure()
  from pytype.pytd import pytd
  sup = {}

  def visit_class(cls):
    bases = []
    for b in cls.bases:
      if isinstance(b, pytd.GenericType):
        bases.append(b.base_type.name)
      elif hasattr(b, "name"):
        bases.append(b.name)
    sup[cls.name] = bases
    for c in cls.classes:
      visit_class(c)

  for ast in asts:
    for cls in ast.classes:
      visit_class(cls)
  return sup
